//! rfacts: a rustc_private driver that dumps the resolved program (MIR as
//! built, before any optimisation or state-machine transform) of the crate
//! being compiled as JSON-lines facts.  Used as RUSTC_WORKSPACE_WRAPPER.
//!
//! Nothing is executed; the output is a description of the type-checked
//! program: bodies, blocks, statements, terminators with resolved callees,
//! ADTs and impl tables.
#![feature(rustc_private)]
#![allow(clippy::all)]

extern crate rustc_abi;
extern crate rustc_data_structures;
extern crate rustc_driver;
extern crate rustc_hir;
extern crate rustc_interface;
extern crate rustc_middle;
extern crate rustc_session;
extern crate rustc_span;

use rustc_data_structures::steal::Steal;
use rustc_driver::{Callbacks, Compilation};
use rustc_hir::def::DefKind;
use rustc_hir::def_id::{DefId, LocalDefId};
use rustc_interface::interface;
use rustc_middle::mir::{
    AggregateKind, BasicBlock, Body, BorrowKind, Const, Operand, Place,
    ProjectionElem, Rvalue, StatementKind, TerminatorKind, UnwindAction,
    VarDebugInfoContents,
};
use rustc_middle::ty::print::with_no_trimmed_paths;
use rustc_middle::ty::{self, Instance, Ty, TyCtxt, TypingEnv};
use rustc_middle::util::Providers;
use rustc_session::Session;
use rustc_span::{FileName, Span};
use std::fmt::Write as _;
use std::sync::{Mutex, OnceLock};

type MirBuiltFn =
    for<'tcx> fn(TyCtxt<'tcx>, LocalDefId) -> &'tcx Steal<Body<'tcx>>;

static ORIG_MIR_BUILT: OnceLock<MirBuiltFn> = OnceLock::new();
static OUT: Mutex<Vec<String>> = Mutex::new(Vec::new());
static SEEN: Mutex<Vec<u32>> = Mutex::new(Vec::new());

// ------------------------------------------------------------------ JSON

fn jstr(s: &str) -> String {
    let mut o = String::with_capacity(s.len() + 2);
    o.push('"');
    for c in s.chars() {
        match c {
            '"' => o.push_str("\\\""),
            '\\' => o.push_str("\\\\"),
            '\n' => o.push_str("\\n"),
            '\r' => o.push_str("\\r"),
            '\t' => o.push_str("\\t"),
            c if (c as u32) < 0x20 => {
                let _ = write!(o, "\\u{:04x}", c as u32);
            }
            c => o.push(c),
        }
    }
    o.push('"');
    o
}

fn jopt(s: Option<String>) -> String {
    match s {
        Some(s) => jstr(&s),
        None => "null".into(),
    }
}

// ------------------------------------------------------------------ names

fn dpath(tcx: TyCtxt<'_>, did: DefId) -> String {
    with_no_trimmed_paths!(tcx.def_path_str(did))
}

fn tystr<'tcx>(ty: Ty<'tcx>) -> String {
    with_no_trimmed_paths!(ty.to_string())
}

struct Cx<'a, 'tcx> {
    tcx: TyCtxt<'tcx>,
    body: &'a Body<'tcx>,
    def: LocalDefId,
}

impl<'a, 'tcx> Cx<'a, 'tcx> {
    fn span_json(&self, sp: Span) -> String {
        let sm = self.tcx.sess.source_map();
        let lo = sm.lookup_char_pos(sp.lo());
        let hi = sm.lookup_char_pos(sp.hi());
        let file = match &lo.file.name {
            FileName::Real(r) => match r.local_path() {
                Some(p) => p.to_string_lossy().into_owned(),
                None => format!("{:?}", r),
            },
            other => format!("{:?}", other),
        };
        let blo = sp.lo().0.saturating_sub(lo.file.start_pos.0);
        let bhi = sp.hi().0.saturating_sub(lo.file.start_pos.0);
        format!(
            "{{\"file\":{},\"line\":{},\"col\":{},\"eline\":{},\"ecol\":{},\"blo\":{},\"bhi\":{}}}",
            jstr(&file),
            lo.line,
            lo.col.0 + 1,
            hi.line,
            hi.col.0 + 1,
            blo,
            bhi
        )
    }

    fn macro_chain(&self, sp: Span) -> String {
        // names of the macros this span was expanded from, innermost first
        let mut out = Vec::new();
        let mut s = sp;
        let mut n = 0;
        while s.from_expansion() && n < 8 {
            let d = s.ctxt().outer_expn_data();
            out.push(jstr(&format!("{}", d.kind.descr())));
            s = d.call_site;
            n += 1;
        }
        format!("[{}]", out.join(","))
    }

    fn place(&self, p: &Place<'tcx>) -> String {
        let mut out = format!("[{}", p.local.as_u32());
        let mut pty = rustc_middle::mir::PlaceTy::from_ty(
            self.body.local_decls[p.local].ty,
        );
        for elem in p.projection.iter() {
            let s = match elem {
                ProjectionElem::Deref => "*".to_string(),
                ProjectionElem::Field(f, _) => {
                    let name = match pty.ty.kind() {
                        ty::Adt(adt, _) => {
                            let v = match pty.variant_index {
                                Some(v) => adt.variant(v),
                                None => {
                                    if adt.is_enum() {
                                        // cannot happen without downcast
                                        adt.variant(rustc_abi::VariantIdx::from_u32(0))
                                    } else {
                                        adt.non_enum_variant()
                                    }
                                }
                            };
                            v.fields
                                .get(f)
                                .map(|fd| fd.name.to_string())
                                .unwrap_or_else(|| f.as_u32().to_string())
                        }
                        _ => f.as_u32().to_string(),
                    };
                    format!(".{}", name)
                }
                ProjectionElem::Index(l) => format!("[_{}]", l.as_u32()),
                ProjectionElem::ConstantIndex { offset, from_end, .. } => {
                    if from_end {
                        format!("[-{}]", offset)
                    } else {
                        format!("[{}]", offset)
                    }
                }
                ProjectionElem::Subslice { from, to, from_end } => {
                    format!("[{}..{}{}]", from, if from_end { "-" } else { "" }, to)
                }
                ProjectionElem::Downcast(name, vi) => match name {
                    Some(n) => format!("@{}", n),
                    None => format!("@#{}", vi.as_u32()),
                },
                ProjectionElem::OpaqueCast(_) => "as".to_string(),
                ProjectionElem::UnwrapUnsafeBinder(_) => "unbind".to_string(),
            };
            out.push(',');
            out.push_str(&jstr(&s));
            pty = pty.projection_ty(self.tcx, elem);
        }
        out.push(']');
        out
    }

    /// For every projection element of `p`: the def path of the ADT owning the
    /// field (null for non-field elements or non-ADT bases).
    fn place_owners(&self, p: &Place<'tcx>) -> String {
        let mut out = Vec::new();
        let mut pty = rustc_middle::mir::PlaceTy::from_ty(
            self.body.local_decls[p.local].ty,
        );
        for elem in p.projection.iter() {
            let s = match elem {
                ProjectionElem::Field(..) => match pty.ty.kind() {
                    ty::Adt(adt, _) => jstr(&dpath(self.tcx, adt.did())),
                    ty::Closure(did, _) | ty::Coroutine(did, _) => {
                        jstr(&format!("closure:{}", dpath(self.tcx, *did)))
                    }
                    ty::Tuple(_) => "\"tuple\"".to_string(),
                    _ => "null".to_string(),
                },
                _ => "null".to_string(),
            };
            out.push(s);
            pty = pty.projection_ty(self.tcx, elem);
        }
        format!("[{}]", out.join(","))
    }

    fn constant(&self, c: &Const<'tcx>) -> String {
        let ty = c.ty();
        let mut fields = vec![format!("\"ty\":{}", jstr(&tystr(ty)))];
        match ty.kind() {
            ty::FnDef(did, args) => {
                fields.push(format!("\"fn\":{}", jstr(&dpath(self.tcx, *did))));
                fields.push(format!(
                    "\"full\":{}",
                    jstr(&with_no_trimmed_paths!(
                        self.tcx.def_path_str_with_args(*did, args)
                    ))
                ));
            }
            _ => {
                let shown = with_no_trimmed_paths!(format!("{}", c));
                fields.push(format!("\"v\":{}", jstr(&shown)));
                // scalar ints
                let tenv = TypingEnv::post_analysis(self.tcx, self.def.to_def_id());
                if ty.is_integral() || ty.is_bool() || ty.is_char() {
                    if let Some(si) = c.try_eval_scalar_int(self.tcx, tenv) {
                        let sz = si.size();
                        let bits = si.to_bits(sz);
                        if ty.is_signed() {
                            let v = sz.sign_extend(bits) as i128;
                            fields.push(format!("\"int\":{}", v));
                        } else {
                            fields.push(format!("\"int\":{}", bits));
                        }
                    }
                }
            }
        }
        format!("{{{}}}", fields.join(","))
    }

    fn operand(&self, o: &Operand<'tcx>) -> String {
        match o {
            Operand::Copy(p) => format!("{{\"c\":{}}}", self.place(p)),
            Operand::Move(p) => format!("{{\"m\":{}}}", self.place(p)),
            Operand::Constant(c) => {
                format!("{{\"k\":{}}}", self.constant(&c.const_))
            }
            #[allow(unreachable_patterns)]
            other => format!("{{\"x\":{}}}", jstr(&format!("{:?}", other))),
        }
    }

    fn adt_variants(&self, ty: Ty<'tcx>) -> String {
        match ty.kind() {
            ty::Adt(adt, _) if adt.is_enum() => {
                let mut v = Vec::new();
                for (idx, d) in adt.discriminants(self.tcx) {
                    v.push(format!(
                        "[{},{}]",
                        jstr(adt.variant(idx).name.as_str()),
                        d.val
                    ));
                }
                format!(
                    "\"adt\":{},\"vars\":[{}]",
                    jstr(&dpath(self.tcx, adt.did())),
                    v.join(",")
                )
            }
            _ => format!("\"adt\":null,\"dty\":{}", jstr(&tystr(ty))),
        }
    }

    fn rvalue(&self, rv: &Rvalue<'tcx>) -> String {
        match rv {
            Rvalue::Use(o, ..) => format!("{{\"r\":\"use\",\"o\":{}}}", self.operand(o)),
            Rvalue::Repeat(o, n) => format!(
                "{{\"r\":\"repeat\",\"o\":{},\"n\":{}}}",
                self.operand(o),
                jstr(&format!("{}", n))
            ),
            Rvalue::Ref(_, bk, p) => format!(
                "{{\"r\":\"ref\",\"mut\":{},\"p\":{},\"po\":{}}}",
                matches!(bk, BorrowKind::Mut { .. }),
                self.place(p),
                self.place_owners(p)
            ),
            Rvalue::RawPtr(_, p) => {
                format!("{{\"r\":\"rawptr\",\"p\":{},\"po\":{}}}", self.place(p), self.place_owners(p))
            }
            Rvalue::Cast(kind, o, ty) => format!(
                "{{\"r\":\"cast\",\"kind\":{},\"o\":{},\"ty\":{}}}",
                jstr(&format!("{:?}", kind)),
                self.operand(o),
                jstr(&tystr(*ty))
            ),
            Rvalue::BinaryOp(op, ab) => format!(
                "{{\"r\":\"bin\",\"op\":{},\"a\":{},\"b\":{}}}",
                jstr(&format!("{:?}", op)),
                self.operand(&ab.0),
                self.operand(&ab.1)
            ),
            Rvalue::UnaryOp(op, a) => format!(
                "{{\"r\":\"un\",\"op\":{},\"a\":{}}}",
                jstr(&format!("{:?}", op)),
                self.operand(a)
            ),
            Rvalue::Discriminant(p) => {
                let pty = p.ty(&self.body.local_decls, self.tcx).ty;
                format!(
                    "{{\"r\":\"discr\",\"p\":{},{}}}",
                    self.place(p),
                    self.adt_variants(pty)
                )
            }
            Rvalue::Aggregate(kind, ops) => {
                let opsj: Vec<String> =
                    ops.iter().map(|o| self.operand(o)).collect();
                match &**kind {
                    AggregateKind::Adt(did, vi, _args, _, active) => {
                        let adt = self.tcx.adt_def(*did);
                        let var = adt.variant(*vi);
                        let names: Vec<String> = if let Some(a) = active {
                            vec![jstr(var.fields[*a].name.as_str())]
                        } else {
                            var.fields
                                .iter()
                                .map(|f| jstr(f.name.as_str()))
                                .collect()
                        };
                        format!(
                            "{{\"r\":\"agg\",\"kind\":\"adt\",\"adt\":{},\"variant\":{},\"names\":[{}],\"ops\":[{}]}}",
                            jstr(&dpath(self.tcx, *did)),
                            jstr(var.name.as_str()),
                            names.join(","),
                            opsj.join(",")
                        )
                    }
                    AggregateKind::Closure(did, _)
                    | AggregateKind::Coroutine(did, _)
                    | AggregateKind::CoroutineClosure(did, _) => format!(
                        "{{\"r\":\"agg\",\"kind\":\"closure\",\"def\":{},\"ops\":[{}]}}",
                        jstr(&dpath(self.tcx, *did)),
                        opsj.join(",")
                    ),
                    AggregateKind::Tuple => format!(
                        "{{\"r\":\"agg\",\"kind\":\"tuple\",\"ops\":[{}]}}",
                        opsj.join(",")
                    ),
                    AggregateKind::Array(_) => format!(
                        "{{\"r\":\"agg\",\"kind\":\"array\",\"ops\":[{}]}}",
                        opsj.join(",")
                    ),
                    AggregateKind::RawPtr(..) => format!(
                        "{{\"r\":\"agg\",\"kind\":\"rawptr\",\"ops\":[{}]}}",
                        opsj.join(",")
                    ),
                }
            }
            Rvalue::CopyForDeref(p) => format!(
                "{{\"r\":\"use\",\"o\":{{\"c\":{}}}}}",
                self.place(p)
            ),
            other => format!(
                "{{\"r\":\"other\",\"dbg\":{}}}",
                jstr(&format!("{:?}", other))
            ),
        }
    }

    fn bb(b: BasicBlock) -> u32 {
        b.as_u32()
    }

    fn unwind(u: &UnwindAction) -> String {
        match u {
            UnwindAction::Cleanup(b) => format!("{}", b.as_u32()),
            _ => "null".into(),
        }
    }

    fn callee(&self, func: &Operand<'tcx>) -> String {
        if let Some((did, args)) = func.const_fn_def() {
            let tcx = self.tcx;
            let def = dpath(tcx, did);
            let full = with_no_trimmed_paths!(tcx.def_path_str_with_args(did, args));
            let tenv = TypingEnv::post_analysis(tcx, self.def.to_def_id());
            let mut resolved: Option<String> = None;
            let mut trait_of: Option<String> = None;
            let mut self_ty: Option<String> = None;
            if let Some(tr) = tcx.trait_of_assoc(did) {
                trait_of = Some(dpath(tcx, tr));
                if args.len() > 0 {
                    if let Some(t) = args.get(0).and_then(|a| a.as_type()) {
                        self_ty = Some(tystr(t));
                    }
                }
                let r = std::panic::catch_unwind(std::panic::AssertUnwindSafe(|| {
                    Instance::try_resolve(tcx, tenv, did, args)
                }));
                if let Ok(Ok(Some(inst))) = r {
                    let rd = inst.def_id();
                    if rd != did {
                        resolved = Some(dpath(tcx, rd));
                    }
                }
            } else if let Some(imp) = tcx.impl_of_assoc(did) {
                // inherent method: give the self type of the impl
                let t = tcx.type_of(imp).instantiate_identity().skip_norm_wip();
                self_ty = Some(tystr(t));
            }
            let targs: Vec<String> = args
                .iter()
                .filter_map(|a| a.as_type())
                .map(|t| jstr(&tystr(t)))
                .collect();
            format!(
                "{{\"def\":{},\"full\":{},\"trait\":{},\"self\":{},\"resolved\":{},\"targs\":[{}],\"local\":{}}}",
                jstr(&def),
                jstr(&full),
                jopt(trait_of),
                jopt(self_ty),
                jopt(resolved),
                targs.join(","),
                did.is_local()
            )
        } else {
            format!(
                "{{\"def\":null,\"ptr\":{},\"pty\":{}}}",
                self.operand(func),
                jstr(&tystr(func.ty(&self.body.local_decls, self.tcx)))
            )
        }
    }

    fn terminator(&self, t: &rustc_middle::mir::Terminator<'tcx>) -> String {
        let sp = t.source_info.span;
        let common = format!(
            "\"span\":{},\"exp\":{}",
            self.span_json(sp),
            sp.from_expansion()
        );
        match &t.kind {
            TerminatorKind::Goto { target } => {
                format!("{{\"t\":\"goto\",\"to\":{}}}", Self::bb(*target))
            }
            TerminatorKind::SwitchInt { discr, targets } => {
                let mut v = Vec::new();
                for (val, bb) in targets.iter() {
                    v.push(format!("[{},{}]", val, Self::bb(bb)));
                }
                let dty = discr.ty(&self.body.local_decls, self.tcx);
                format!(
                    "{{\"t\":\"switch\",\"d\":{},\"dty\":{},\"targets\":[{}],\"otherwise\":{},{}}}",
                    self.operand(discr),
                    jstr(&tystr(dty)),
                    v.join(","),
                    Self::bb(targets.otherwise()),
                    common
                )
            }
            TerminatorKind::UnwindResume => "{\"t\":\"resume\"}".into(),
            TerminatorKind::UnwindTerminate(_) => "{\"t\":\"abort\"}".into(),
            TerminatorKind::Return => format!("{{\"t\":\"return\",{}}}", common),
            TerminatorKind::Unreachable => "{\"t\":\"unreachable\"}".into(),
            TerminatorKind::Drop { place, target, unwind, .. } => format!(
                "{{\"t\":\"drop\",\"p\":{},\"to\":{},\"unwind\":{}}}",
                self.place(place),
                Self::bb(*target),
                Self::unwind(unwind)
            ),
            TerminatorKind::Call {
                func, args, destination, target, unwind, fn_span, ..
            } => {
                let a: Vec<String> =
                    args.iter().map(|o| self.operand(&o.node)).collect();
                let cs = sp.source_callsite();
                format!(
                    "{{\"t\":\"call\",\"fn\":{},\"args\":[{}],\"dest\":{},\"desto\":{},\"to\":{},\"unwind\":{},{},\"cs\":{},\"macros\":{},\"fnspan\":{}}}",
                    self.callee(func),
                    a.join(","),
                    self.place(destination),
                    self.place_owners(destination),
                    match target {
                        Some(b) => format!("{}", Self::bb(*b)),
                        None => "null".into(),
                    },
                    Self::unwind(unwind),
                    common,
                    self.span_json(cs),
                    self.macro_chain(sp),
                    self.span_json(*fn_span),
                )
            }
            TerminatorKind::TailCall { func, args, .. } => {
                let a: Vec<String> =
                    args.iter().map(|o| self.operand(&o.node)).collect();
                format!(
                    "{{\"t\":\"tailcall\",\"fn\":{},\"args\":[{}],{}}}",
                    self.callee(func),
                    a.join(","),
                    common
                )
            }
            TerminatorKind::Assert { cond, expected, msg, target, unwind } => {
                format!(
                    "{{\"t\":\"assert\",\"cond\":{},\"expected\":{},\"msg\":{},\"to\":{},\"unwind\":{},{}}}",
                    self.operand(cond),
                    expected,
                    jstr(&format!("{:?}", msg)),
                    Self::bb(*target),
                    Self::unwind(unwind),
                    common
                )
            }
            TerminatorKind::Yield { value, resume, drop, .. } => format!(
                "{{\"t\":\"yield\",\"v\":{},\"to\":{},\"drop\":{},{}}}",
                self.operand(value),
                Self::bb(*resume),
                match drop {
                    Some(b) => format!("{}", Self::bb(*b)),
                    None => "null".into(),
                },
                common
            ),
            TerminatorKind::CoroutineDrop => "{\"t\":\"codrop\"}".into(),
            TerminatorKind::FalseEdge { real_target, imaginary_target } => format!(
                "{{\"t\":\"goto\",\"to\":{},\"false_edge\":{}}}",
                Self::bb(*real_target),
                Self::bb(*imaginary_target)
            ),
            TerminatorKind::FalseUnwind { real_target, .. } => format!(
                "{{\"t\":\"goto\",\"to\":{},\"false_unwind\":true}}",
                Self::bb(*real_target)
            ),
            TerminatorKind::InlineAsm { .. } => "{\"t\":\"asm\"}".into(),
        }
    }

    fn body_json(&self) -> String {
        let tcx = self.tcx;
        let body = self.body;
        let did = self.def.to_def_id();
        let kind = tcx.def_kind(did);
        let mut s = String::with_capacity(16 * 1024);
        let _ = write!(
            s,
            "{{\"k\":\"body\",\"id\":{},\"def_kind\":{},",
            jstr(&dpath(tcx, did)),
            jstr(&format!("{:?}", kind))
        );
        let _ = write!(s, "\"span\":{},", self.span_json(body.span));
        let _ = write!(
            s,
            "\"derive\":{},",
            body.span.in_derive_expansion()
        );
        let _ = write!(s, "\"exp\":{},", body.span.from_expansion());
        // parent (closures) / impl / trait item
        let parent = tcx.opt_parent(did).map(|p| dpath(tcx, p));
        let _ = write!(s, "\"parent\":{},", jopt(parent));
        let mut impl_trait: Option<String> = None;
        let mut impl_self: Option<String> = None;
        let mut trait_item: Option<String> = None;
        if matches!(kind, DefKind::AssocFn | DefKind::AssocConst { .. }) {
            if let Some(imp) = tcx.impl_of_assoc(did) {
                let t = tcx.type_of(imp).instantiate_identity().skip_norm_wip();
                impl_self = Some(tystr(t));
                if let Some(tr) = tcx.impl_opt_trait_ref(imp) {
                    let tr = tr.instantiate_identity().skip_norm_wip();
                    impl_trait = Some(dpath(tcx, tr.def_id));
                }
                if let Some(ti) = tcx.trait_item_of(did) {
                    trait_item = Some(dpath(tcx, ti));
                }
            } else if let Some(tr) = tcx.trait_of_assoc(did) {
                impl_trait = Some(dpath(tcx, tr));
                impl_self = Some("Self".into());
            }
        }
        let _ = write!(
            s,
            "\"impl_self\":{},\"impl_trait\":{},\"trait_item\":{},",
            jopt(impl_self),
            jopt(impl_trait),
            jopt(trait_item)
        );
        if matches!(kind, DefKind::Fn | DefKind::AssocFn) {
            let _ = write!(
                s,
                "\"vis\":{},",
                jstr(&format!("{:?}", tcx.visibility(did)))
            );
        }
        let _ = write!(s, "\"argc\":{},", body.arg_count);
        let _ = write!(
            s,
            "\"coroutine\":{},",
            body.coroutine.is_some()
        );
        // locals
        s.push_str("\"locals\":[");
        for (i, (_l, d)) in body.local_decls.iter_enumerated().enumerate() {
            if i > 0 {
                s.push(',');
            }
            let _ = write!(
                s,
                "{{\"ty\":{},\"user\":{}}}",
                jstr(&tystr(d.ty)),
                d.is_user_variable()
            );
        }
        s.push_str("],\"debug\":[");
        let mut first = true;
        for v in &body.var_debug_info {
            if let VarDebugInfoContents::Place(p) = &v.value {
                if !first {
                    s.push(',');
                }
                first = false;
                let _ = write!(
                    s,
                    "{{\"name\":{},\"p\":{},\"arg\":{}}}",
                    jstr(v.name.as_str()),
                    self.place(p),
                    match v.argument_index {
                        Some(a) => a.to_string(),
                        None => "null".into(),
                    }
                );
            }
        }
        s.push_str("],\"blocks\":[");
        for (i, (_bb, data)) in body.basic_blocks.iter_enumerated().enumerate() {
            if i > 0 {
                s.push(',');
            }
            let _ = write!(s, "{{\"cleanup\":{},\"stmts\":[", data.is_cleanup);
            let mut first = true;
            for st in &data.statements {
                let line = {
                    let sm = tcx.sess.source_map();
                    sm.lookup_char_pos(st.source_info.span.lo()).line
                };
                let j = match &st.kind {
                    StatementKind::Assign(b) => Some(format!(
                        "{{\"s\":\"assign\",\"lhs\":{},\"lo\":{},\"rv\":{},\"line\":{},\"exp\":{}}}",
                        self.place(&b.0),
                        self.place_owners(&b.0),
                        self.rvalue(&b.1),
                        line,
                        st.source_info.span.from_expansion()
                    )),
                    StatementKind::SetDiscriminant { place, variant_index } => {
                        Some(format!(
                            "{{\"s\":\"setdiscr\",\"p\":{},\"v\":{},\"line\":{}}}",
                            self.place(place),
                            variant_index.as_u32(),
                            line
                        ))
                    }
                    StatementKind::StorageDead(l) => Some(format!(
                        "{{\"s\":\"dead\",\"l\":{}}}",
                        l.as_u32()
                    )),
                    _ => None,
                };
                if let Some(j) = j {
                    if !first {
                        s.push(',');
                    }
                    first = false;
                    s.push_str(&j);
                }
            }
            let _ = write!(
                s,
                "],\"term\":{}}}",
                match &data.terminator {
                    Some(t) => self.terminator(t),
                    None => "{\"t\":\"none\"}".into(),
                }
            );
        }
        s.push_str("]}");
        s
    }
}

fn extract<'tcx>(tcx: TyCtxt<'tcx>, def: LocalDefId, body: &Body<'tcx>) {
    {
        let mut seen = SEEN.lock().unwrap();
        let idx = def.local_def_index.as_u32();
        if seen.contains(&idx) {
            return;
        }
        seen.push(idx);
    }
    let cx = Cx { tcx, body, def };
    let line = cx.body_json();
    OUT.lock().unwrap().push(line);
}

fn mir_built_wrapper<'tcx>(
    tcx: TyCtxt<'tcx>,
    def: LocalDefId,
) -> &'tcx Steal<Body<'tcx>> {
    let orig = ORIG_MIR_BUILT.get().expect("orig mir_built");
    let res = orig(tcx, def);
    {
        let b = res.borrow();
        extract(tcx, def, &b);
    }
    res
}

fn override_queries(_sess: &Session, providers: &mut Providers) {
    let _ = ORIG_MIR_BUILT.set(providers.queries.mir_built);
    providers.queries.mir_built = mir_built_wrapper;
}

// ------------------------------------------------------------------ items

fn items_json<'tcx>(tcx: TyCtxt<'tcx>, out: &mut Vec<String>) {
    let items = tcx.hir_crate_items(());
    for ld in items.definitions() {
        let did = ld.to_def_id();
        match tcx.def_kind(did) {
            DefKind::Struct | DefKind::Enum | DefKind::Union => {
                let adt = tcx.adt_def(did);
                let mut vars = Vec::new();
                for v in adt.variants() {
                    let mut fs = Vec::new();
                    for f in &v.fields {
                        let fty = tcx.type_of(f.did).instantiate_identity().skip_norm_wip();
                        fs.push(format!(
                            "{{\"name\":{},\"ty\":{},\"vis\":{}}}",
                            jstr(f.name.as_str()),
                            jstr(&tystr(fty)),
                            jstr(&format!("{:?}", f.vis))
                        ));
                    }
                    vars.push(format!(
                        "{{\"name\":{},\"fields\":[{}]}}",
                        jstr(v.name.as_str()),
                        fs.join(",")
                    ));
                }
                out.push(format!(
                    "{{\"k\":\"adt\",\"id\":{},\"enum\":{},\"vis\":{},\"variants\":[{}]}}",
                    jstr(&dpath(tcx, did)),
                    adt.is_enum(),
                    jstr(&format!("{:?}", tcx.visibility(did))),
                    vars.join(",")
                ));
            }
            DefKind::Impl { .. } => {
                let t = tcx.type_of(did).instantiate_identity().skip_norm_wip();
                let tr = tcx
                    .impl_opt_trait_ref(did)
                    .map(|t| dpath(tcx, t.instantiate_identity().skip_norm_wip().def_id));
                let mut its = Vec::new();
                for it in tcx.associated_items(did).in_definition_order() {
                    its.push(format!(
                        "{{\"name\":{},\"def\":{},\"kind\":{}}}",
                        jstr(it.name().as_str()),
                        jstr(&dpath(tcx, it.def_id)),
                        jstr(&format!("{:?}", it.tag()))
                    ));
                }
                out.push(format!(
                    "{{\"k\":\"impl\",\"id\":{},\"self\":{},\"trait\":{},\"items\":[{}]}}",
                    jstr(&dpath(tcx, did)),
                    jstr(&tystr(t)),
                    jopt(tr),
                    its.join(",")
                ));
            }
            DefKind::Trait => {
                let mut its = Vec::new();
                for it in tcx.associated_items(did).in_definition_order() {
                    its.push(format!(
                        "{{\"name\":{},\"def\":{},\"kind\":{},\"default\":{}}}",
                        jstr(it.name().as_str()),
                        jstr(&dpath(tcx, it.def_id)),
                        jstr(&format!("{:?}", it.tag())),
                        it.defaultness(tcx).has_value()
                    ));
                }
                out.push(format!(
                    "{{\"k\":\"trait\",\"id\":{},\"items\":[{}]}}",
                    jstr(&dpath(tcx, did)),
                    its.join(",")
                ));
            }
            DefKind::Fn | DefKind::AssocFn => {
                // signature facts (also for bodies without MIR, e.g. trait decls)
                let sig = tcx.fn_sig(did).instantiate_identity().skip_norm_wip();
                out.push(format!(
                    "{{\"k\":\"fn\",\"id\":{},\"sig\":{},\"vis\":{}}}",
                    jstr(&dpath(tcx, did)),
                    jstr(&with_no_trimmed_paths!(format!("{}", sig))),
                    jstr(&format!("{:?}", tcx.visibility(did)))
                ));
            }
            _ => {}
        }
    }
}

struct Cb {
    out_dir: Option<String>,
}

impl Callbacks for Cb {
    fn config(&mut self, config: &mut interface::Config) {
        if self.out_dir.is_some() {
            config.override_queries = Some(override_queries);
        }
    }

    fn after_expansion<'tcx>(
        &mut self,
        _compiler: &interface::Compiler,
        tcx: TyCtxt<'tcx>,
    ) -> Compilation {
        let Some(dir) = self.out_dir.clone() else {
            return Compilation::Continue;
        };
        let crate_name = tcx.crate_name(rustc_hir::def_id::LOCAL_CRATE).to_string();
        if let Ok(only) = std::env::var("RFACTS_CRATE") {
            if only != crate_name {
                return Compilation::Continue;
            }
        }
        let ctype = tcx
            .crate_types()
            .first()
            .map(|c| format!("{:?}", c).to_lowercase())
            .unwrap_or_else(|| "unknown".into());
        let mut missing = Vec::new();
        for def in tcx.hir_body_owners() {
            // force building; the wrapper extracts
            let r = std::panic::catch_unwind(std::panic::AssertUnwindSafe(|| {
                let _ = tcx.mir_built(def);
            }));
            if r.is_err() {
                missing.push(dpath(tcx, def.to_def_id()));
            }
        }
        {
            let seen = SEEN.lock().unwrap();
            for def in tcx.hir_body_owners() {
                if !seen.contains(&def.local_def_index.as_u32()) {
                    missing.push(dpath(tcx, def.to_def_id()));
                }
            }
        }
        let mut lines = std::mem::take(&mut *OUT.lock().unwrap());
        items_json(tcx, &mut lines);
        let miss: Vec<String> = missing.iter().map(|m| jstr(m)).collect();
        lines.push(format!(
            "{{\"k\":\"meta\",\"crate\":{},\"crate_type\":{},\"bodies\":{},\"missing\":[{}]}}",
            jstr(&crate_name),
            jstr(&ctype),
            SEEN.lock().unwrap().len(),
            miss.join(",")
        ));
        let path = format!("{}/{}.{}.jsonl", dir, crate_name, ctype);
        let mut data = lines.join("\n");
        data.push('\n');
        std::fs::write(&path, data).expect("write facts");
        Compilation::Continue
    }
}

fn main() {
    let mut args: Vec<String> = std::env::args().collect();
    // RUSTC_WORKSPACE_WRAPPER: argv[1] is the path of the real rustc
    if args.len() > 1 && (args[1].ends_with("rustc") || args[1].contains("/rustc")) {
        args.remove(1);
    }
    let out_dir = std::env::var("RFACTS_OUT").ok();
    let mut cb = Cb { out_dir };
    rustc_driver::run_compiler(&args, &mut cb);
}
