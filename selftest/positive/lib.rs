//! Tiny positive examples for zero-count rules: each detector that is expected
//! to find NOTHING in routinator must find its example here on every run.
#![allow(dead_code)]

/// C38: ordering comparison on Option operands (None orders below Some).
pub fn option_ordering(content_length: Option<u64>, max_object_size: Option<u64>) -> bool {
    content_length > max_object_size
}

/// C27: allocation sized by an unchecked decoded length.
pub fn decoded_len_alloc(data: &[u8]) -> Vec<u8> {
    let len = u32::from_be_bytes([data[0], data[1], data[2], data[3]]) as usize;
    vec![0u8; len]
}

/// C30: a path component taken from a URI string verbatim.
pub fn raw_uri_path(base: &std::path::Path, uri: &str) -> std::path::PathBuf {
    base.join(uri)
}
