#!/bin/bash
# run every implemented check (quick tier) on the current /repo tree; one line each
cd /verif
for f in rules/props/C*.py; do c=$(basename $f .py); out=$(./check $c 2>/dev/null); rc=$?; echo "$rc $(echo "$out" | head -1) $(echo "$out" | grep -c '^  violated') violated"; done
