#!/bin/bash
# usage: try_patch.sh <patch.diff> <Cxx> [Cyy...]  -- apply to /repo, run checks, revert
P=$1; shift
if [ -n "$(git -C /repo status --porcelain)" ]; then echo "REFUSING: /repo has uncommitted changes"; exit 9; fi
git -C /repo apply "$P" || { echo "patch does not apply"; exit 9; }
cd /verif
for c in "$@"; do ./check $c 2>&1 | grep -vE "^\[facts\]" ; done
git -C /repo checkout -- .
git -C /repo status --short
