#!/usr/bin/env python3
"""tools/seed_matrix.py [Cxx...] — apply every hand mutant (selftest/mutants) and every seeded change (seeded/*) of each
property to a scratch copy of /repo's current tree, run the property's rules, and record the outcome in
selftest/results.json, in each seed's meta.json (detected_by) and as a markdown table (selftest/RESULTS.md).
Never touches /repo."""
import importlib, importlib.util, importlib.machinery, json, os, sys, glob
V = os.path.dirname(os.path.dirname(os.path.abspath(__file__)))
sys.path.insert(0, os.path.join(V, 'rules'))
spec = importlib.util.spec_from_loader('check', importlib.machinery.SourceFileLoader('check', os.path.join(V, 'check')))
chk = importlib.util.module_from_spec(spec); spec.loader.exec_module(chk)
from lib import thorough
from lib.facts import Facts
only = sys.argv[1:]
props = sorted(os.path.basename(p)[:-3] for p in glob.glob(os.path.join(V, 'rules', 'props', 'C*.py')))
resf = os.path.join(V, 'selftest', 'results.json')
results = json.load(open(resf)) if os.path.exists(resf) else {}
fact = chk.ensure_facts('default')
pf = chk.ensure_positive()
positive = Facts(pf) if pf else None
for pid in props:
    if only and pid not in only:
        continue
    mod = importlib.import_module('props.' + pid)
    ms = thorough.mutants_for(pid)
    if not ms:
        results[pid] = []
        continue
    base = thorough.run_rules(pid, mod, fact, chk.REPO, positive)
    baseline = set(o['key'] for o in base.obligations if not o['ok'])
    rows = []
    for m in ms:
        r = thorough.run_mutant(pid, mod, chk.REPO, m, chk.ensure_facts, positive, baseline, 'matrix-%s-%d' % (pid, os.getpid()))
        state = 'detected' if r['detected'] else ('MISSED' if r['built'] else ('does-not-build' if r['applied'] else 'STALE'))
        rows.append(dict(name=r['name'], kind=r['kind'], state=state, keys=r['keys'][:2]))
        print('%-4s %-7s %-48s %-14s %s' % (pid, r['kind'], r['name'], state, (r['keys'] or [''])[0][:90]), flush=True)
        if r['kind'] == 'seed':
            mp = os.path.join(V, 'seeded', r['name'], 'meta.json')
            meta = json.load(open(mp))
            db = [d for d in (meta.get('detected_by') or []) if d.get('check') != pid]
            if r['detected']:
                db.append({'check': pid, 'keys': r['keys'][:3]})
            meta['detected_by'] = db
            json.dump(meta, open(mp, 'w'), indent=1)
    results[pid] = rows
    json.dump(results, open(resf, 'w'), indent=1)
# markdown
lines = ['| property | kind | change | outcome | first reporting rule instance |', '|---|---|---|---|---|']
for pid in sorted(results):
    for r in results[pid]:
        lines.append('| %s | %s | %s | %s | `%s` |' % (pid, r['kind'], r['name'], r['state'], (r['keys'] or ['-'])[0][:100].replace('|', '/')))
open(os.path.join(V, 'selftest', 'RESULTS.md'), 'w').write('\n'.join(lines) + '\n')
