#!/usr/bin/env python3
"""Snapshot of the crate's function names (all cfg universes) at development time: selftest/known_fns.json.
Used ONLY by rules/lib/inline.py to decide which callees are new helpers that should be inlined before the rules run."""
import importlib.util, importlib.machinery, json, os, sys
V = os.path.dirname(os.path.dirname(os.path.abspath(__file__)))
sys.path.insert(0, os.path.join(V, 'rules'))
spec = importlib.util.spec_from_loader('check', importlib.machinery.SourceFileLoader('check', os.path.join(V, 'check')))
chk = importlib.util.module_from_spec(spec); spec.loader.exec_module(chk)
from lib.facts import Facts
names = set()
callees = {}
fields = {}
for u in ('default', 'nodefault', 'rta'):
    f = Facts(chk.ensure_facts(u))
    for nid in f.by_nid:
        if '{closure' not in nid:
            names.add(nid)
    for raw, line in f._lines.items():
        rec = json.loads(line)
        from lib.facts import norm, callee_name
        nid = norm(rec['id'])
        if '{closure' in nid:
            continue
        cs = callees.setdefault(nid, set())
        for blk in rec['blocks']:
            t = blk['term']
            if t.get('t') == 'call':
                cs.add(callee_name(t))
    for name, a in f.adts.items():
        for v in a.get('variants', []):
            fields.setdefault(name, {}).setdefault(v['name'], [(x['name'], x['ty']) for x in v.get('fields', [])])
out = dict(commit=os.popen('git -C /repo rev-parse --short HEAD').read().strip(), functions=sorted(names),
           callees={k: sorted(v) for k, v in sorted(callees.items())}, fields=fields)
json.dump(out, open(os.path.join(V, 'selftest', 'known_fns.json'), 'w'), indent=0)
print('known functions:', len(names))
