#!/usr/bin/env python3
"""save_seed.py <name> <property> <src out dir> <demo cmd> <needs> -- copy a confirmed seeded change into /verif/seeded/<name>/"""
import json, os, shutil, sys
name, prop, src, demo, needs = sys.argv[1:6]
d = os.path.join('/verif/seeded', name)
os.makedirs(d, exist_ok=True)
for f in ('patch.diff', 'demo.diff', 'README.md'):
    shutil.copy(os.path.join(src, f), os.path.join(d, f))
meta = {
    'property': prop,
    'needs_to_manifest': needs,
    'demonstration': demo,
    'confirmed': 'tools/confirm_seed.sh: clean+demo passes; patched tree builds, 31 baseline tests pass, demo fails',
    'base_commit': os.popen('git -C /repo rev-parse --short HEAD').read().strip(),
    'detected_by': None,
}
json.dump(meta, open(os.path.join(d, 'meta.json'), 'w'), indent=1)
print('saved', d)
