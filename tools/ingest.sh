#!/bin/bash
# usage: ingest.sh <outdir> <Cxx> <kebab-name> "<demo test filter (after --lib)>" "<needs to manifest>"
# confirms a seeded change in a scratch worktree, saves it under seeded/ and runs the property's check on it.
set -u
OUT=$1; P=$2; NAME=$3; DEMO=$4; NEEDS=$5
cd /verif
R=$(tools/confirm_seed.sh $OUT/$P --lib $DEMO 2>&1 | grep "^==\|test result\|DOES NOT")
echo "$R"
C1=$(echo "$R" | sed -n '2p' | grep -c "ok\. 1 passed\|ok\. 2 passed\|ok\. 3 passed")
C2=$(echo "$R" | sed -n '4p' | grep -c "31 passed\|32 passed\|33 passed")
C3=$(echo "$R" | tail -1 | grep -c "FAILED")
if [ "$C1" = 1 ] && [ "$C2" = 1 ] && [ "$C3" = 1 ]; then
  python3 tools/save_seed.py $P-$NAME $P $OUT/$P "cargo test --offline --lib $DEMO" "$NEEDS"
  tools/mutants.py $P $P-$NAME 2>&1 | grep "^seed" | cut -c1-220
else
  echo "NOT CONFIRMED ($C1 $C2 $C3)"
fi
