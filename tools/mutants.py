#!/usr/bin/env python3
"""tools/mutants.py <Cxx> [name-filter...]  — run the self-validation mutants/seeds of one property on scratch copies
of /repo's current tree (never touches /repo). Exit 0 iff all were detected."""
import importlib, os, sys, importlib.util, importlib.machinery
V = os.path.dirname(os.path.dirname(os.path.abspath(__file__)))
sys.path.insert(0, os.path.join(V, 'rules'))
spec = importlib.util.spec_from_loader('check', importlib.machinery.SourceFileLoader('check', os.path.join(V, 'check')))
chk = importlib.util.module_from_spec(spec); spec.loader.exec_module(chk)
from lib import thorough
from lib.facts import Facts
pid = sys.argv[1]; only = sys.argv[2:]
mod = importlib.import_module('props.' + pid)
fact = chk.ensure_facts('default')
pf = chk.ensure_positive()
positive = Facts(pf) if pf else None
base = thorough.run_rules(pid, mod, fact, chk.REPO, positive)
baseline = set(o['key'] for o in base.obligations if not o['ok'])
bad = 0
for m in thorough.mutants_for(pid):
    if only and not any(x in m['name'] for x in only):
        continue
    r = thorough.run_mutant(pid, mod, chk.REPO, m, chk.ensure_facts, positive, baseline, 'mut-%s-%d' % (pid, os.getpid()))
    state = 'detected' if r['detected'] else ('MISSED' if r['built'] else ('does-not-build' if r['applied'] else 'STALE'))
    print('%-8s %-45s %-14s %s' % (r['kind'], r['name'], state, r['keys'][:2]))
    bad += not r['detected']
sys.exit(1 if bad else 0)
