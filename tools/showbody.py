#!/usr/bin/env python3
import sys, glob, os, json
sys.path.insert(0, '/verif/rules')
from lib.facts import *
fs = sorted(glob.glob('/verif/.cache/facts/default-*/routinator.rlib.jsonl'), key=os.path.getmtime)
F = Facts(fs[-1])
def opstr(b, o):
    if 'k' in o:
        k = o['k']
        return 'const ' + (k.get('fn') or str(k.get('v')))
    p = o.get('c') or o.get('m')
    return ('move ' if 'm' in o else '') + place_str(b, p)
def rvstr(b, rv):
    r = rv['r']
    if r == 'use': return opstr(b, rv['o'])
    if r == 'ref': return ('&mut ' if rv.get('mut') else '&') + place_str(b, rv['p'])
    if r == 'bin': return '%s(%s, %s)' % (rv['op'], opstr(b, rv['a']), opstr(b, rv['b']))
    if r == 'un': return '%s(%s)' % (rv['op'], opstr(b, rv['a']))
    if r == 'discr': return 'discriminant(%s)' % place_str(b, rv['p'])
    if r == 'agg': return '%s%s(%s)' % (norm(rv.get('adt') or rv.get('def') or rv['kind']), ('::' + rv['variant']) if rv.get('variant') else '', ', '.join(opstr(b, o) for o in rv['ops']))
    if r == 'cast': return 'cast<%s>(%s)' % (rv['kind'], opstr(b, rv['o']))
    return json.dumps(rv)[:100]
for b in F.find(sys.argv[1]):
    print('=====', b.id, b.file, b.line)
    reach = b.reachable(0)
    for i, blk in enumerate(b.blocks):
        if blk['cleanup'] or i not in reach: continue
        print(' bb%d:' % i)
        for s in blk['stmts']:
            if s['s'] == 'assign':
                print('    %s = %s   [%s]' % (place_str(b, s['lhs']), rvstr(b, s['rv']), s['line']))
            elif s['s'] == 'setdiscr':
                print('    setdiscr', s)
        t = blk['term']
        if t['t'] == 'call':
            print('    %s = %s(%s) -> bb%s   [%s]' % (place_str(b, t['dest']), callee_name(t), ', '.join(opstr(b, a) for a in t['args']), t['to'], t['span']['line']))
        elif t['t'] == 'switch':
            o, e = b.switch_edges(i)
            print('    switch %s : %s  {%s}' % (opstr(b, t['d']), o.path(), e))
        elif t['t'] == 'goto':
            print('    goto bb%d' % t['to'])
        elif t['t'] == 'drop':
            print('    drop %s -> bb%d' % (place_str(b, t['p']), t['to']))
        else:
            print('    ' + t['t'], t.get('to', ''))
