#!/usr/bin/env python3
"""Regenerates /verif/MANIFEST.json from rules/props/*.py (META) and
tools/not_applicable.json.  Run after adding or changing a property module."""
import importlib
import json
import os
import sys

VERIF = os.path.dirname(os.path.dirname(os.path.abspath(__file__)))
sys.path.insert(0, os.path.join(VERIF, 'rules'))

props = [json.loads(l) for l in open(os.path.join(VERIF, 'properties.jsonl'))]
na = json.load(open(os.path.join(VERIF, 'tools', 'not_applicable.json')))
checks = []
not_app = []
served = []
for p in props:
    pid = p['id']
    path = os.path.join(VERIF, 'rules', 'props', pid + '.py')
    if os.path.exists(path) and pid not in na:
        mod = importlib.import_module('props.' + pid)
        m = mod.META
        served.append(pid)
        checks.append({
            'property_id': pid,
            'quick_cmd': './check %s --tier quick' % pid,
            'thorough_cmd': './check %s --tier thorough' % pid,
            'evidence_file': '/verif/evidence/%s.json' % pid,
            'replay_cmd_template': './check %s --replay {path}' % pid,
            'engine': 'rfacts+rules',
            'level_claimed': {
                'category': m.get('level', 'other'),
                'text': m['explanation'] + ' DECIDES: ' + m.get('decides', '') + '.',
                'design_ref': 'DESIGN.md section 4, ' + pid,
            },
            'level_note': 'Not decided: ' + m.get('undecided', '-') + '. Trusted base: ' + '; '.join(m.get('trusted_base', [])),
            'technique': m.get('technique', 'static analysis: rule table over rustc MIR facts (' + ', '.join(m.get('rules', [])[:3]) + ')'),
        })
    else:
        not_app.append({'property_id': pid,
                        'reason': na.get(pid, 'no static rule built yet for this property (see DESIGN.md section 4); not claimed')})

man = {
    'version': 1,
    'setup_cmd': './check --setup',
    'hooks': {
        'guard': 'nlnetlabs_routinator_verif',
        'enable': 'none needed: nothing is executed; checks run `cargo +nightly check` on /repo with the rfacts rustc wrapper',
        'baseline_off_cmd': 'cd /repo && cargo test --workspace --no-fail-fast --offline',
        'source_commits': [],
        'add_only': True,
    },
    'engines': [
        {'name': 'rfacts', 'path': 'rfacts/', 'serves_properties': served,
         'kind_free_text': 'rustc_private driver (RUSTC_WORKSPACE_WRAPPER) dumping MIR-as-built, resolved callees, ADTs and impl tables of the routinator crate as JSON facts'},
        {'name': 'rules', 'path': 'rules/', 'serves_properties': served,
         'kind_free_text': 'python3 rule library: CFG dominance / edge dominance, ordering, who-may-call, decision tables, provenance slices, sink typing, codec agreement over the fact base'},
    ],
    'checks': checks,
    'not_applicable': not_app,
    'notes': 'Static analysis only. Known genuine defects are listed in known_findings.json (open = reported as KNOWN-FINDING, fixed:<commit> = repaired in /repo by a fix: commit and no longer suppressed).',
}
json.dump(man, open(os.path.join(VERIF, 'MANIFEST.json'), 'w'), indent=1)
print('checks: %d, not_applicable: %d' % (len(checks), len(not_app)))
