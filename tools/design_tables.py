#!/usr/bin/env python3
"""Rewrite the generated tables of DESIGN.md (section 10) from known_findings.json, selftest/results.json, MANIFEST.json."""
import json, os, re, glob, importlib, sys
V = os.path.dirname(os.path.dirname(os.path.abspath(__file__)))
sys.path.insert(0, os.path.join(V, 'rules'))
D = os.path.join(V, 'DESIGN.md')
s = open(D).read()
kf = json.load(open(os.path.join(V, 'known_findings.json')))
res = json.load(open(os.path.join(V, 'selftest', 'results.json'))) if os.path.exists(os.path.join(V, 'selftest', 'results.json')) else {}
man = json.load(open(os.path.join(V, 'MANIFEST.json')))


def region(name, body):
    global s
    s = re.sub(r'<!-- BEGIN %s -->.*?<!-- END %s -->' % (name, name),
               '<!-- BEGIN %s -->\n%s\n<!-- END %s -->' % (name, body, name), s, flags=re.S)


# status
rows = ['| id | rules (from the check\'s META) | fixed defects | open findings | mutants+seeds detected |', '|---|---|---|---|---|']
claimed = {c['property_id']: c for c in man['checks']}
for i in range(1, 42):
    pid = 'C%02d' % i
    if pid not in claimed:
        rows.append('| %s | not applicable | | | |' % pid)
        continue
    mod = importlib.import_module('props.' + pid)
    rules = '; '.join(mod.META.get('rules', []))
    fx = [k for k in kf if k['property'] == pid and k['status'].startswith('fixed')]
    op = [k for k in kf if k['property'] == pid and k['status'] == 'open']
    r = res.get(pid, [])
    det = sum(1 for x in r if x['state'] == 'detected')
    rows.append('| %s | %s | %s | %s | %d/%d |' % (pid, rules, ' '.join(k['status'].split(':')[1] for k in fx), len(op) or '', det, len(r)))
region('status', '\n'.join(rows))
# findings
rows = ['| property | status | what failed (rule key) |', '|---|---|---|']
for k in kf:
    rows.append('| %s | %s | %s (`%s`) |' % (k['property'], k['status'].replace('fixed:', 'fixed in '), k['what'].replace('|', '/')[:400], k['key']))
region('findings', '\n'.join(rows))
# matrix
rows = ['| property | kind | change | outcome | first reporting rule instance |', '|---|---|---|---|---|']
tot = det = 0
for pid in sorted(res):
    for r in res[pid]:
        tot += 1
        det += r['state'] == 'detected'
        rows.append('| %s | %s | %s | %s | `%s` |' % (pid, r['kind'], r['name'], r['state'], (r['keys'] or ['-'])[0][:90].replace('|', '/')))
rows.append('')
rows.append('%d of %d changes detected by the check of their property.' % (det, tot))
region('matrix', '\n'.join(rows))
open(D, 'w').write(s)
print('DESIGN.md tables rewritten: %d status rows, %d findings, %d matrix rows' % (41, len(kf), tot))
