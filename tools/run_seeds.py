#!/usr/bin/env python3
"""Apply every seeded change to /repo (git apply), run the checks of its property (and any extra given in meta
'also'), revert, and record which checks detected it in meta.json['detected_by']."""
import json, os, subprocess, sys, glob
os.chdir('/verif')
only = sys.argv[1:]
if subprocess.run(['git','-C','/repo','status','--porcelain'],capture_output=True,text=True).stdout.strip():
    sys.exit('REFUSING: /repo has uncommitted changes')
for d in sorted(glob.glob('seeded/*/')):
    name = d.split('/')[1]
    if only and not any(o in name for o in only):
        continue
    meta = json.load(open(d + 'meta.json'))
    prop = meta['property']
    checks = [prop] + meta.get('also', [])
    r = subprocess.run(['git', '-C', '/repo', 'apply', '--3way', os.path.abspath(d + 'patch.diff')], capture_output=True, text=True)
    if r.returncode != 0:
        r = subprocess.run(['git', '-C', '/repo', 'apply', os.path.abspath(d + 'patch.diff')], capture_output=True, text=True)
    if r.returncode != 0:
        print(name, 'PATCH DOES NOT APPLY', r.stderr[:200])
        subprocess.run(['git', '-C', '/repo', 'checkout', '--', '.'])
        continue
    det = []
    for c in checks:
        if not os.path.exists('rules/props/%s.py' % c):
            continue
        o = subprocess.run(['./check', c], capture_output=True, text=True)
        keys = [l.split('violated: ')[1].strip() for l in o.stdout.splitlines() if 'violated: ' in l]
        if o.returncode == 1:
            det.append({'check': c, 'keys': sorted(set(keys))[:4]})
        elif o.returncode != 0:
            det.append({'check': c, 'error': o.stdout[-200:]})
    subprocess.run(['git', '-C', '/repo', 'reset', '-q', '--hard', 'HEAD'])
    meta['detected_by'] = det
    json.dump(meta, open(d + 'meta.json', 'w'), indent=1)
    print(name, '->', [(x['check'], x.get('keys', x.get('error'))[:1]) for x in det] or 'MISSED')
