#!/bin/bash
# Full false-alarm run in 4 parallel shards (fact builds are serialised by the cache lock, rule runs are not);
# merges the shard results into selftest/benign_results.json.
cd "$(dirname "$0")/.."
T=$(mktemp -d)
BENIGN_OUT=$T/a.json tools/benign.py patch:C0 > $T/a.log 2>&1 &
BENIGN_OUT=$T/b.json tools/benign.py patch:C1 > $T/b.log 2>&1 &
BENIGN_OUT=$T/c.json tools/benign.py patch:C2 patch:C3 patch:C4 > $T/c.log 2>&1 &
BENIGN_OUT=$T/d.json tools/benign.py $(python3 -c "import json; print(' '.join(m['name'] for m in json.load(open('selftest/benign/benign.json'))))") > $T/d.log 2>&1 &
wait
python3 - $T <<'PY'
import json, sys, glob, os
res = []
for f in sorted(glob.glob(os.path.join(sys.argv[1], '*.json'))):
    res += json.load(open(f))
json.dump(res, open('selftest/benign_results.json', 'w'), indent=1)
bad = [r for r in res if r['state'] != 'quiet']
print('%d benign changes, %d not quiet' % (len(res), len(bad)))
for r in bad:
    print(r['name'], r['state'], r.get('keys'))
PY
grep -h "FALSE\\|STALE\\|NOT BUILD" $T/*.log
rm -rf $T
