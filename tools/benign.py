#!/usr/bin/env python3
"""tools/benign.py [name-filter...] — false-alarm test: apply each behaviour-preserving edit of selftest/benign/*.json
(same format as the mutants) to a scratch copy of /repo's current tree, run EVERY check's rules on it, and report any
violation that is not reported on the unchanged tree. Exit 0 iff no check raises an alarm on any benign edit."""
import importlib, importlib.util, importlib.machinery, json, os, sys, glob, shutil
V = os.path.dirname(os.path.dirname(os.path.abspath(__file__)))
sys.path.insert(0, os.path.join(V, 'rules'))
spec = importlib.util.spec_from_loader('check', importlib.machinery.SourceFileLoader('check', os.path.join(V, 'check')))
chk = importlib.util.module_from_spec(spec); spec.loader.exec_module(chk)
from lib import thorough
from lib.facts import Facts
only = sys.argv[1:]
props = sorted(os.path.basename(p)[:-3] for p in glob.glob(os.path.join(V, 'rules', 'props', 'C*.py')))
mods = {p: importlib.import_module('props.' + p) for p in props}
fact = chk.ensure_facts('default')
pf = chk.ensure_positive()
positive = Facts(pf) if pf else None
base = {}
for p in props:
    c = thorough.run_rules(p, mods[p], fact, chk.REPO, positive)
    base[p] = set(o['key'] for o in c.obligations if not o['ok'])
specs = []
for f in sorted(glob.glob(os.path.join(V, 'selftest', 'benign', '*.json'))):
    specs += json.load(open(f))
# refactorings written by sub-agents that saw only the property text (git diffs against the tree they were written for)
for f in sorted(glob.glob(os.path.join(V, 'selftest', 'benign', 'patches', '*.diff'))):
    specs.append(dict(name='patch:' + os.path.basename(f)[:-5], patch=f))
bad = 0
results = []
for m in specs:
    if only and not any(x in m['name'] for x in only):
        continue
    root, dst = thorough.scratch_copy(chk.REPO, 'benign-%d' % os.getpid())
    try:
        if not (thorough.apply_patch(dst, m['patch']) if 'patch' in m else thorough.apply_mutant(dst, m)):
            print('%-45s STALE (edit no longer applies)' % m['name']); results.append(dict(name=m['name'], state='stale')); continue
        mf = chk.ensure_facts('default', repo=dst, tag='benign')
        if not mf:
            print('%-45s DOES NOT BUILD' % m['name']); results.append(dict(name=m['name'], state='does-not-build')); bad += 1; continue
        alarms = []
        for p in props:
            c = thorough.run_rules(p, mods[p], mf, dst, positive)
            new = sorted(set(o['key'] for o in c.obligations if not o['ok']) - base[p])
            alarms += new
        shutil.rmtree(os.path.dirname(mf), ignore_errors=True)
        print('%-45s %s' % (m['name'], 'quiet' if not alarms else 'FALSE ALARM: ' + '; '.join(alarms[:4])), flush=True)
        results.append(dict(name=m['name'], state='quiet' if not alarms else 'false-alarm', keys=alarms[:6]))
        bad += bool(alarms)
    finally:
        shutil.rmtree(root, ignore_errors=True)
if not only:
    json.dump(results, open(os.path.join(V, 'selftest', 'benign_results.json'), 'w'), indent=1)
elif os.environ.get('BENIGN_OUT'):
    # a shard of a full run (tools/benign_all.sh merges the shards into selftest/benign_results.json)
    json.dump(results, open(os.environ['BENIGN_OUT'], 'w'), indent=1)
sys.exit(1 if bad else 0)
