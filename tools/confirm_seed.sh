#!/bin/bash
# usage: confirm_seed.sh <seed-dir containing patch.diff demo.diff> <demo cargo test args...>
# Confirms in a scratch worktree: clean+demo passes, patched builds, baseline passes, demo fails.
set -u
SD=$1; shift
WT=/tmp/vseed-wt
export CARGO_TARGET_DIR=/tmp/vseed-target
export CARGO_NET_OFFLINE=true
git -C /repo worktree remove --force $WT 2>/dev/null
git -C /repo worktree add --detach $WT HEAD -q || exit 9
cd $WT
git apply $SD/demo.diff || { echo "DEMO DOES NOT APPLY"; exit 9; }
echo "== clean + demo"
cargo test --offline "$@" 2>&1 | grep -E "^test result|^test .*(ok|FAILED)|panicked|^error" | head -20
git apply $SD/patch.diff || { echo "PATCH DOES NOT APPLY"; exit 9; }
echo "== patched: baseline"
cargo test --offline --lib 2>&1 | grep -E "^test result|^error" | head -5
echo "== patched + demo"
cargo test --offline "$@" 2>&1 | grep -E "^test result|^test .*(ok|FAILED)|panicked|^error" | head -20
cd /
git -C /repo worktree remove --force $WT
