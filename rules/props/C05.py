"""C05 Fetched manifests never roll back stored data (K4 decision table, exhaustive)."""
import itertools
import re
from lib.tables import enumerate_paths, MIRROR
from lib.rules import edges_from_call, fmt_path

META = dict(
    level='proof',
    explanation=(
        'Decision-table extraction (K4) over engine::PubPoint::check_collected_is_newer: all acyclic paths are enumerated; '
        'comparisons are abstracted to the order relation cmp(A,B) in {Less,Equal,Greater} so that `>` on the fast path '
        'and `<=` on the slow path are the same variable. The finite product stored-manifest{present,absent} x '
        'cmp(number){L,E,G} x cmp(thisUpdate){L,E,G} x stored-decodes{ok,err} x cached-number-consistent{yes,no} x '
        'cached-time-consistent{yes,no} x reject{ok,fails} (288 rows) is compared with the statement: accept (Ok(true), no '
        'reject) iff no stored manifest or number strictly greater AND thisUpdate strictly later; otherwise Ok(false) when '
        'the stored copy is internally consistent, else reject-then-accept. Operand roles (collected vs stored vs '
        're-decoded stored) are taken from the provenance of each comparison operand. Plus K1: StoredPoint::update in '
        'process_collected is reachable only through the true edge of check_collected_is_newer.'),
    decides='the exact acceptance condition for every (number, thisUpdate) history, exhaustive over the order relations; the stored rollback reference survives cleanup until it expires',
    undecided='ordering semantics of rpki Serial/Time themselves',
    trusted_base=['rustc MIR construction + callee resolution', 'PartialOrd of x509::Serial and Time is a total order'],
    rules=['K4 decision table (288 rows)', 'K1 store update gated by the newer check', 'K4 StoredPoint::retain: a stored manifest is kept until its certificate expires (shared with C40)'],
)


def split_cmp(var):
    m = re.match(r'^cmp\((.*)\)$', var)
    if not m:
        return None
    s = m.group(1)
    depth = 0
    for i, c in enumerate(s):
        if c == '(':
            depth += 1
        elif c == ')':
            depth -= 1
        elif c == ',' and depth == 0:
            return s[:i], s[i + 1:]
    return None


def role_of(var):
    """-> (role, mirrored) with role in S, N, T, D, CN, CT, R"""
    if re.match(r'^call:StoredPoint::manifest\([^@]*\)$', var):
        return 'S', False
    if re.match(r'^call:Manifest::decode\(.*\)$', var) and '@' not in var.split(')')[-1]:
        return 'D', False
    if re.match(r'^call:StoredPoint::reject\([^@]*\)$', var):
        return 'R', False
    ab = split_cmp(var)
    if ab:
        a, b = ab
        st_rx = re.compile(r'^call:StoredPoint::manifest\(.*\)@Some\.0\.(manifest_number|this_update)$')
        stored_a = bool(st_rx.match(a))
        stored_b = bool(st_rx.match(b))
        if stored_a == stored_b:
            return None, False
        other, st, mir = (b, a, True) if stored_a else (a, b, False)
        fld = 'num' if (other.startswith('call:ManifestContent::manifest_number') and st.endswith('.manifest_number')) else \
              ('time' if (other.startswith('call:ManifestContent::this_update') and st.endswith('.this_update')) else None)
        if fld is None:
            return None, False
        decoded = 'Manifest::content' in other or 'Manifest::decode' in other
        if decoded:
            return ('CN' if fld == 'num' else 'CT'), mir
        return ('N' if fld == 'num' else 'T'), mir
    return None, False


def rule_table(ctx):
    b = ctx.body('engine::PubPoint::check_collected_is_newer')
    paths = enumerate_paths(b, ctx.facts)
    ctx.floor('K4', 'acyclic paths of check_collected_is_newer', len(paths), 6)
    # closures that compute "the decoded stored manifest agrees with the cached number and thisUpdate"
    cons_rx = re.compile(r'^call:(Result::unwrap_or\(call:Result::map\(call:Manifest::decode\(.*\),.*\{closure#\d+\}.*\),const\((0|false)\)\)|'
                         r'Result::is_ok_and\(call:Manifest::decode\(.*\),.*\{closure#\d+\}.*\))$')
    cons_closures = set()
    for c in ctx.closures(b):
        rows_c = []
        for cp in enumerate_paths(c, ctx.facts):
            roles = {}
            for v, labs in cp.cond_map().items():
                vv = re.sub(r'(upvar:\w+|_1\.\d+)(?=\.(manifest_number|this_update))', 'call:StoredPoint::manifest(x)@Some.0',
                            re.sub(r'\bmft\b', 'call:Manifest::decode(x)@Ok.0', v))
                r_, mir_ = role_of(vv)
                if r_ in ('CN', 'CT'):
                    roles[r_] = set(labs)
            rows_c.append((roles, cp.outcome or ''))
        if not rows_c:
            continue
        txt = ' '.join(o for _r, o in rows_c) + ' ' + ' '.join(v for cp in enumerate_paths(c, ctx.facts) for v in cp.cond_map())
        both = 'manifest_number' in txt and 'this_update' in txt
        # false whenever a tested equality fails; true / the last equality only when the tested ones hold
        sound = all((o == 'const(0)') if any('Equal' not in l for l in roles.values()) else
                    (o == 'const(1)' or re.search(r'(^|[(:])(Eq|eq)\(', o) is not None or 'PartialEq' in o) for roles, o in rows_c)
        if both and sound:
            m_ = re.search(r'\{closure#(\d+)\}$', c.nid)
            if m_:
                cons_closures.add(m_.group(1))
    keyed = []
    for p in paths:
        if p.kind != 'return':
            ctx.bad('K4', 'check_collected_is_newer:shape', 'path of kind %s: shape not recognised' % p.kind)
            continue
        cm = {}
        for v, labs in p.cond_map().items():
            r, mir = role_of(v)
            if r is None and cons_rx.match(v) and any(('{closure#%s}' % k) in v for k in cons_closures):
                # `decode(stored).map(|mft| number == cached && time == cached).unwrap_or(false)`: one bool for
                # "decodes and both cached values agree"
                r, mir = 'CONS', False
            if r is None:
                ctx.bad('K4', 'check_collected_is_newer:unrecognised-condition',
                        'check_collected_is_newer branches on `%s`, which is not part of the stated acceptance condition' % v)
                continue
            if mir:
                labs = set(MIRROR.get(x, x) for x in labs)
            cm[r] = (cm[r] & labs) if r in cm else set(labs)
        keyed.append((cm, p))
    rows = 0
    for S, N, T, D, CN, CT, R in itertools.product(['Some', 'None'], ['Less', 'Equal', 'Greater'], ['Less', 'Equal', 'Greater'],
                                                    ['Ok', 'Err'], ['Equal', 'Less'], ['Equal', 'Greater'], ['pass', 'fail']):
        rows += 1
        asg = dict(S=S, N=N, T=T, D=D, CN=CN, CT=CT, R=R, CONS='true' if (D == 'Ok' and CN == 'Equal' and CT == 'Equal') else 'false')
        sel = [p for cm, p in keyed if all(asg[r] in labs for r, labs in cm.items())]
        got = sorted(set((p.outcome, bool(p.called('store::StoredPoint::reject'))) for p in sel))
        if S == 'None' or (N == 'Greater' and T == 'Greater'):
            exp = [('Result::Ok(const(1))', False)]
            why = 'accept'
        elif D == 'Ok' and CN == 'Equal' and CT == 'Equal':
            exp = [('Result::Ok(const(0))', False)]
            why = 'keep stored (not strictly newer, stored copy consistent)'
        elif R == 'pass':
            exp = [('Result::Ok(const(1))', True)]
            why = 'stored copy inconsistent: reject it, then accept'
        else:
            exp = None
            why = 'reject failed: error'
        if exp is None:
            ok = len(got) == 1 and got[0][1] and 'Break' in got[0][0]
        else:
            ok = got == exp
        ctx.check(ok, 'K4', 'row:stored=%s,num=%s,time=%s,decode=%s,cnum=%s,ctime=%s,reject=%s' % (S, N, T, D, CN, CT, R),
                  '%s: %s' % (why, got),
                  'acceptance table row violated: stored manifest %s, collected number %s than stored, collected thisUpdate %s '
                  'than stored, stored copy decodes=%s/number-consistent=%s/time-consistent=%s: expected "%s" %s but the code '
                  'yields %s (outcome, reject called)' % (S, N, T, D, CN == 'Equal', CT == 'Equal', why, exp, got),
                  loc=(sel[0].ret_site.loc() if sel and sel[0].ret_site else b.file))
        if rows % 41 == 0:
            ctx.sample(dict(row=asg, expected=why, got=got))
    ctx.extra['rows'] = rows
    ctx.extra['exhaustive'] = True
    ctx.extra['paths'] = [dict(outcome=p.outcome, reject=bool(p.called('store::StoredPoint::reject')),
                               conds={k: sorted(v) for k, v in p.cond_map().items()}) for p in paths]


def rule_gate(ctx):
    b = ctx.body('engine::PubPoint::process_collected')
    pe, oe, sw = edges_from_call(b, 'engine::PubPoint::check_collected_is_newer', {'true'})
    ctx.floor('K1', 'switch on check_collected_is_newer', len(sw), 1)
    ups = b.calls('store::StoredPoint::update')
    ctx.floor('K1', 'StoredPoint::update call', len(ups), 1)
    for u in ups:
        p = b.path_avoiding(u.bb, avoid_edges=pe)
        ctx.check(p is None, 'K1', 'process_collected:update<=newer',
                  'StoredPoint::update is reachable only if check_collected_is_newer returned true',
                  'StoredPoint::update can be reached without a positive check_collected_is_newer', loc=u.loc(), path=fmt_path(b, p))
    # the check is applied to the collected manifest and this point's store
    for s in b.calls('engine::PubPoint::check_collected_is_newer'):
        from lib.rules import arg_path
        ctx.check('store' in arg_path(s, 2), 'K1', 'process_collected:newer-check-args',
                  'the newer-check compares against this publication point\'s StoredPoint', 'newer-check on a different store', loc=s.loc())


def rule_cached_values(ctx):
    """The values check_collected_is_newer compares against are the stored manifest's OWN number and thisUpdate."""
    from lib.rules import agg_sites
    from lib.tables import describe
    b = ctx.body('store::StoredManifest::new')
    lits = agg_sites(b, 'store::StoredManifest')
    ctx.floor('prov', 'StoredManifest literal in StoredManifest::new', len(lits), 1)
    want = {
        'manifest_number': r'^call:ManifestContent::manifest_number\(manifest\)$',
        'this_update': r'^call:ManifestContent::this_update\(manifest\)$',
        'manifest': r'^manifest_bytes$',
    }
    import re as _re
    for l in lits:
        rv = l.stmt['rv']
        for f, rx in want.items():
            d = describe(b.origin_of_operand(rv['ops'][rv['names'].index(f)]))
            ctx.check(bool(_re.match(rx, d)), 'prov', 'StoredManifest::new:%s' % f,
                      'the cached %s is taken from the manifest itself (%s)' % (f, d),
                      'StoredManifest::new caches %s = `%s` instead of the manifest\'s own value: check_collected_is_newer compares '
                      'fetched manifests against the cached number/thisUpdate and treats a stored copy whose cached values differ from '
                      'its manifest as broken - a replayed or older manifest then displaces the newer stored point' % (f, d), loc=l.loc())
    # and the header fields are only written by new()
    from lib.rules import who_calls
    who_calls(ctx, 'K3', 'store::StoredManifest::new', ['engine::PubPoint::process_collected'], floor=1)


from props.C40 import rule_retain  # noqa: E402  (the stored manifest is the rollback reference: cleanup must not drop it before it expires)

RULES = [rule_table, rule_gate, rule_cached_values, rule_retain]
