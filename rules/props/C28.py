"""C28 Every persisted record reads back as written (K7 codec agreement)."""
import re
from lib.facts import norm, callee_matches, callee_name
from lib import tables
from lib.tables import order_edges
from lib.rules import arg_desc, who_calls, agg_sites
from lib.tables import enumerate_paths, describe

META = dict(
    level='other',
    explanation=(
        'Codec-agreement rule (K7): for each persisted record (StoredPointHeader, UpdateStatus, StoredManifest, StoredObject, '
        'StoredStatus, RRDP RepositoryState) the set of ordered (component type) sequences emitted on the success paths of '
        'its writer (Compose::compose calls resolved to their impl type with generic arguments, nested record writers, raw '
        'write_all) equals the set of sequences consumed on the success paths of its reader (Parse::parse resolved likewise, '
        'nested readers, raw read_exact); version/tag constants written are the ones the reader accepts. Primitive codecs: '
        'each integer type is written with to_be_bytes and read with from_be_bytes of the same type and width. The map codec '
        'reads exactly the number of pairs the decoded count says (loop bound = decoded count, not a clamped allocation '
        'hint). Lossiness: a Parse impl that fills a component with a constant the Compose impl never wrote is reported when '
        'a producer can supply other values (Time is written as whole seconds and read with nanoseconds = 0).'),
    decides='field order/type/tag agreement of every record and primitive codec; exact item count for maps; the Time lossiness',
    undecided='value-level equality for all inputs of the URI/Bytes/Hash codecs (byte-copy codecs, trusted)',
    trusted_base=['rustc MIR construction + callee resolution'],
    rules=['K7 record sequences', 'K7 field order of equally typed components', 'K7 Option sentinels', 'K7 primitive endianness pairs', 'K7 map item count', 'lossiness of Time', 'K7 decoders accept the whole range their encoder writes'],
)

RECORDS = [
    ('store::StoredPointHeader::write', 'store::StoredPointHeader::read'),
    ('store::UpdateStatus::write', 'store::UpdateStatus::read'),
    ('store::StoredManifest::write', 'store::StoredManifest::read'),
    ('store::StoredObject::write', 'store::StoredObject::read'),
    ('store::StoredStatus::write', 'store::StoredStatus::read'),
    ('collector::rrdp::archive::RepositoryState::compose', 'collector::rrdp::archive::RepositoryState::parse'),
]


def token(s):
    t = s.term
    f = t['fn']
    raw = f.get('resolved') or f.get('full') or f.get('def') or ''
    full = f.get('full') or ''
    nm = callee_name(t)
    m = re.match(r'^<(.+) as utils::binio::(Compose|Parse)(<.*>)?>::(compose|parse)$', full)
    if m:
        ty = m.group(1)
        ty = re.sub(r"&'?\w*\s*", '', ty)
        return ty
    if nm.endswith('Write::write_all') or nm.endswith('Read::read_exact'):
        return 'raw-bytes'
    m = re.match(r'^(store|collector::rrdp::archive)::(\w+)::(read|write|parse|compose)$', nm)
    if m:
        return 'record:' + m.group(2)
    return None


def seqs(ctx, b, success):
    out = set()
    for p in enumerate_paths(b, ctx.facts, max_visits=2):
        o = p.outcome or ''
        if p.kind != 'return' or not success(o):
            continue
        seq = []
        consts = []
        for s in p.events:
            tk = token(s)
            if tk:
                seq.append(tk)
        out.add(tuple(seq))
    return out


def rule_records(ctx):
    # `(tag, time).0` is described as `tag`: this rule keys on no tuple description
    tables.OPTS['tuple_proj'] = True
    try:
        _records(ctx)
    finally:
        tables.OPTS['tuple_proj'] = False


def _records(ctx):
    for w, r in RECORDS:
        wb = ctx.facts.find(w)
        rb = ctx.facts.find(r)
        if len(wb) != 1 or len(rb) != 1:
            ctx.bad('K7', 'anchor:%s' % w, 'writer/reader pair %s / %s not found' % (w, r))
            continue
        wb, rb = wb[0], rb[0]
        ctx.bodies.add(wb.nid)
        ctx.bodies.add(rb.nid)
        # success of a writer: `Ok(())`, or the result of a last compose call returned as is (`x.compose(w)` in tail position)
        ws = seqs(ctx, wb, lambda o: o.startswith('Result::Ok') or (o.startswith('call:') and 'ompose' in o.split('(')[0] and not o.endswith('@Break.0')))
        # a reader may return Ok(None) for "no more records": only full records count
        rs = seqs(ctx, rb, lambda o: o.startswith('Result::Ok') and o != 'Result::Ok(Option::None())')
        name = w.split('::')[-2]
        ctx.check(bool(ws) and ws == rs, 'K7', 'record:%s:write-seq=read-seq' % name,
                  '%s: writer and reader agree on %d layout(s): %s' % (name, len(ws), sorted(ws)[:2]),
                  '%s: the component sequences written %s differ from those read %s' % (name, sorted(ws), sorted(rs)),
                  loc=wb.file + ':%d' % wb.line)
        ctx.sample(dict(record=name, layouts=[list(x) for x in sorted(ws)]))
    # version constants: the reader compares the first u8 with the constant the writer emits
    for w, r in RECORDS:
        if 'UpdateStatus' in w or 'StoredObject' in w or 'StoredManifest' in w:
            continue
        wb, rb = ctx.facts.find(w), ctx.facts.find(r)
        if len(wb) != 1 or len(rb) != 1:
            continue
        wv = None
        for s in wb[0].calls('utils::binio::Compose::compose'):
            d = arg_desc(s, 0)
            if 'VERSION' in d or re.match(r'^const\(\d+\)$', d):
                wv = d
                break
        rv = None
        for sbb in rb[0].switches():
            from lib.tables import order_edges
            o, e = rb[0].switch_edges(sbb)
            oe = order_edges(o, e)
            if oe and ('VERSION' in oe[0] or re.search(r'const\(\d+\)', oe[0])) and 'parse' in oe[0]:
                rv = oe[0]
        name = w.split('::')[-2]
        ctx.check(wv is not None and rv is not None and (wv in rv or wv.replace('const(', '').rstrip(')') in rv), 'K7', 'record:%s:version-constant' % name,
                  'reader checks the version constant the writer emits (%s)' % wv, '%s: writer emits version %s, reader compares %s' % (name, wv, rv))
    # UpdateStatus tags
    uw = ctx.body('store::UpdateStatus::write')
    ur = ctx.body('store::UpdateStatus::read')
    wt = {}
    for p in enumerate_paths(uw, ctx.facts):
        var = [list(l)[0] for v, l in p.cond_map().items() if v == 'self' and len(l) == 1]
        tag = [p.event_args.get(s.bb, [None])[0] for s in p.events if token(s) == 'u8']
        if var and tag:
            wt[var[0]] = tag[0]
    rt = {}
    for p in enumerate_paths(ur, ctx.facts):
        m = re.search(r'UpdateStatus::(\w+)\(', p.outcome or '')
        tagv = [sorted(l)[0] for v, l in p.cond_map().items() if 'parse' in v and v.endswith('@Continue.0') and len(l) == 1]
        if not tagv:
            # `if tag == 0 {..} else if tag == 1 {..}`: the tag is the constant of the comparison that holds
            for v, l in p.cond_map().items():
                mm = re.match(r'^cmp\(.*parse.*@Continue\.0,const\((\d+)\)\)$', v)
                if mm and set(l) == {'Equal'}:
                    tagv = [mm.group(1)]
        if m and tagv:
            rt[m.group(1)] = 'const(%s)' % tagv[0]
    ctx.check(bool(wt) and wt == rt, 'K7', 'UpdateStatus:tags', 'tags agree: %s' % wt, 'UpdateStatus tags written %s vs read %s' % (wt, rt))


def rule_option_sentinels(ctx):
    """Option<T> codecs: the constant written for None is the value on which the reader returns None."""
    n = 0
    for b in ctx.facts.all_bodies():
        m = re.match(r'^<std::option::Option<(.*)> as utils::binio::Compose<\w+>>::compose$', b.rec['id'])
        if not m or not b.file.endswith('utils/binio.rs'):
            continue
        ty = m.group(1)
        rb = [x for x in ctx.facts.all_bodies() if re.match(r'^<std::option::Option<%s> as utils::binio::Parse<\w+>>::parse$' % re.escape(ty), x.rec['id'])]
        if len(rb) != 1:
            ctx.bad('K7', 'option:%s:reader' % ty, 'Parse impl for Option<%s> not found' % ty)
            continue
        rb = rb[0]
        ctx.bodies.add(b.nid)
        ctx.bodies.add(rb.nid)
        n += 1
        wconst = set()
        for p in enumerate_paths(b, ctx.facts):
            if p.cond_map().get('self') == {'None'}:
                for sx in p.events:
                    if callee_name(sx.term).endswith('Compose::compose') or 'Compose>::compose' in callee_name(sx.term):
                        a = p.event_args.get(sx.bb) or []
                        mm = re.match(r'^const\((-?\d+)\)$', a[0]) if a else None
                        if mm:
                            wconst.add(mm.group(1))
        rconst = set()
        for p in enumerate_paths(rb, ctx.facts):
            if (p.outcome or '') != 'Result::Ok(Option::None())':
                continue
            for v, labs in p.cond_map().items():
                mm = re.match(r'^cmp\(call:Parse>::parse\(source\)@Continue\.0,const\((-?\d+)\)\)$', v)
                if mm and labs == {'Equal'}:
                    rconst.add(mm.group(1))
                elif v == 'call:Parse>::parse(source)@Continue.0' and len(labs) == 1 and re.match(r'^-?\d+$', str(list(labs)[0])):
                    rconst.add(str(list(labs)[0]))
        ctx.check(bool(wconst) and wconst == rconst, 'K7', 'option-sentinel:%s' % ty,
                  'Option<%s>: None is written as %s and read back as None for exactly that value' % (ty, sorted(wconst)),
                  'Option<%s>: None is written as %s but the reader returns None for %s: a stored None comes back as Some(..) or a '
                  'parse error, a stored value equal to the reader sentinel comes back as None' % (ty, sorted(wconst), sorted(rconst)),
                  loc='%s:%d' % (rb.file, rb.line))
    ctx.floor('K7', 'Option<T> codecs', n, 4)


def rule_field_order(ctx):
    """Same-typed neighbours: the n-th component written is the field the n-th component read is stored into."""
    for w, r in RECORDS:
        wb, rb = ctx.facts.find(w), ctx.facts.find(r)
        if len(wb) != 1 or len(rb) != 1:
            continue
        wb, rb = wb[0], rb[0]
        name = w.split('::')[-2]
        # writer: fields of self in the order they are composed on the success path
        worder = []
        for p in enumerate_paths(wb, ctx.facts, max_visits=2):
            if p.kind != 'return' or not (p.outcome or '').startswith('Result::Ok'):
                continue
            seq = []
            for sx in p.events:
                if token(sx) is None:
                    continue
                a = p.event_args.get(sx.bb) or []
                mm = re.match(r'^self\.(\w+)', a[0]) if a else None
                if mm:
                    seq.append(mm.group(1))
            if len(seq) > len(worder):
                worder = seq
        # reader: the record literal; each named field is fed by one parse call site; order = order of those sites on the path
        lits = agg_sites(rb, rb.nid.rsplit('::', 1)[0]) if True else []
        lits = [l for l in lits if l.stmt['rv'].get('names')]
        if not lits or not worder:
            continue
        rv = lits[0].stmt['rv']
        site_of = {}
        for fn, op in zip(rv['names'], rv['ops']):
            o = rb.origin_of_operand(op)
            cs = [c for c in o.calls() if token(type('S', (), {'term': c.term})()) is not None]
            if cs:
                site_of[fn] = cs[0].site.bb
        rorder = []
        for p in enumerate_paths(rb, ctx.facts, max_visits=2):
            if p.kind != 'return' or not (p.outcome or '').startswith('Result::Ok(') or 'None' in (p.outcome or '')[:24]:
                continue
            pos = {sx.bb: i for i, sx in enumerate(p.events)}
            seq = sorted((pos[bbx], fn) for fn, bbx in site_of.items() if bbx in pos)
            if len(seq) > len(rorder):
                rorder = [fn for _i, fn in seq]
        common_w = [f for f in worder if f in rorder]
        common_r = [f for f in rorder if f in worder]
        if len(common_w) < 2:
            continue
        ctx.check(common_w == common_r, 'K7', 'record:%s:field-order' % name,
                  '%s: fields are read in the order they are written (%s)' % (name, ', '.join(common_w)),
                  '%s: fields are written in the order %s but read in the order %s: values of equally typed neighbours come back '
                  'swapped' % (name, common_w, common_r), loc='%s:%d' % (rb.file, rb.line))


def rule_decoder_domain(ctx):
    """A decoder in utils::binio accepts every value its encoder can write: no comparison of the decoded value with a
    constant may end in an error built in place (`if timestamp < 0 { return Err(..) }`); the encoders write any value
    of the type. Tag switches (`0`/`1`/other) are the business of the record rules; the `Option` sentinels compare for
    equality and end in `Ok(None)`."""
    unknown = set(ctx.facts.unknown_functions())
    n = 0
    for b in ctx.facts.all_bodies():
        if not b.file.endswith('utils/binio.rs') or not b.nid.endswith('binio::Parse>::parse'):
            continue
        n += 1
        ctx.bodies.add(b.nid)
        ty = re.sub(r' as utils::binio::Parse.*$', '', b.rec['id']).lstrip('<')
        for s in b.calls('re:.'):
            nm = norm(s.callee)
            if nm in unknown:
                # judged on the inlined body (second run); a helper that cannot be inlined stays reported
                ctx.bad('K7', 'shape/unknown-helper:%s' % nm, 'the decoder of %s calls %s, a function the rule tables do not know' % (ty, nm), loc=s.loc())
        paths = [p for p in enumerate_paths(b, ctx.facts, max_visits=2) if p.kind == 'return']
        # a range test is to blame for an error only if it alone decides it: every path on which it holds ends in an
        # error built in place (a sentinel test `!= MIN` also lies on the path of a later, unrelated failure)
        verdicts = {}
        for p in paths:
            o = p.outcome or ''
            for v, labs in p.cond_map().items():
                base = tables.strip_suffix(v)
                if base.startswith('cmp(') and 'parse(' in base and re.search(r'const\(-?\d+\)', base):
                    verdicts.setdefault((base, frozenset(labs)), []).append(o)
        for (base, labs), outs in sorted(verdicts.items(), key=str):
            if all(o.startswith('Result::Err(') for o in outs):
                o = outs[0]
                if True:
                    ctx.bad('K7', 'decoder-rejects-writable-value:%s' % ty,
                            'the decoder of %s returns an error (%s) depending on `%s` %s: the encoder writes every value of the type, so a '
                            'record holding such a value is written but cannot be read back' % (ty, o[:80], base[:120], sorted(labs)),
                            loc='%s:%d' % (b.file, b.line))
    ctx.floor('K7', 'decoders in utils::binio', n, 15)
    ctx.ok('K7', 'decoders-accept-encoder-range', '%d decoders: no value-range test ends in an error' % n)


def rule_primitives(ctx):
    n = 0
    for ty in ('u32', 'u64', 'i64'):
        cb = ctx.facts.find('<%s as utils::binio::Compose>::compose' % ty)
        pb = ctx.facts.find('<%s as utils::binio::Parse>::parse' % ty)
        if len(cb) != 1 or len(pb) != 1:
            ctx.bad('K7', 'anchor:primitive:%s' % ty, 'primitive codec for %s not found' % ty)
            continue
        n += 1
        to = [s.callee for s in cb[0].calls('re:::to_(be|le|ne)_bytes$')]
        fr = [s.callee for s in pb[0].calls('re:::from_(be|le|ne)_bytes$')]
        ok = len(to) == 1 and len(fr) == 1 and to[0].split('to_')[1] == fr[0].split('from_')[1] and ('<impl %s>' % ty) in to[0] and ('<impl %s>' % ty) in fr[0]
        ctx.check(ok, 'K7', 'primitive:%s:endianness-pair' % ty, '%s: %s <-> %s' % (ty, to, fr), '%s is written with %s but read with %s' % (ty, to, fr))
    ctx.floor('K7', 'primitive codecs', n, 3)
    # HashMap: count written = len(), loop bound read = decoded count
    hp = ctx.facts.find('<std::collections::HashMap as utils::binio::Parse>::parse')
    if len(hp) == 1:
        b = hp[0]
        ctx.bodies.add(b.nid)
        ok = False
        for site, st in b.stmts():
            if st['s'] == 'assign' and st['rv']['r'] == 'agg' and norm(st['rv'].get('adt') or '').endswith('ops::Range'):
                d = describe(b.origin_of_operand(st['rv']['ops'][1]))
                ok = 'cmp::min' not in d and 'cmp::max' not in d and 'parse' in d.lower()
                ctx.check(ok, 'K7', 'HashMap::parse:loop-bound=decoded-count',
                          'the map reader consumes exactly the decoded number of pairs (%s)' % d[:80],
                          'the map reader iterates `0..%s`: the loop bound is not the decoded item count (e.g. clamped together with the '
                          'allocation hint), so a large map reads back truncated and leaves unread bytes' % d[:120], loc=site.loc())
        if not ok:
            # a counting loop: `let mut remaining = len; while remaining > 0 { ..insert..; remaining -= 1 }`
            for l, nm in sorted(b._names.items()):
                defs = [(site, st) for site, st in b.stmts() if st['s'] == 'assign' and st['lhs'] == [l]]
                if len(defs) < 2:
                    continue
                ds = [describe(b.origin_of_stmt(site)) for site, _st in defs]
                init = [d for d in ds if 'parse' in d.lower() and 'Sub' not in d]
                step = [d for d in ds if re.match(r'^(Sub|SubWithOverflow|call:<impl u\w+>::(checked|saturating|wrapping)_sub)\(.*const\(1\)\)', d)]
                tested = any(re.match(r'^cmp\((var:%s|const\(0\)),(var:%s|const\(0\))\)$' % (nm, nm), describe(b.switch_edges(sbb)[0]) if False else (order_edges(*b.switch_edges(sbb)) or ('',))[0])
                             for sbb in b.switches())
                if init and step and len(init) + len(step) == len(ds) and tested:
                    ok = 'cmp::min' not in init[0] and 'cmp::max' not in init[0]
                    ctx.check(ok, 'K7', 'HashMap::parse:loop-bound=decoded-count',
                              'the map reader counts down from the decoded number of pairs (%s)' % init[0][:80],
                              'the map reader counts down from `%s`, which is not the decoded item count' % init[0][:120])
                    break
        ctx.check(ok, 'K7', 'HashMap::parse:loop', 'item loop found', 'item loop of the map reader not recognised')
    else:
        ctx.bad('K7', 'anchor:HashMap::parse', 'map reader not found')


def rule_lossy(ctx):
    pb = ctx.facts.find('<rpki::repository::x509::Time as utils::binio::Parse>::parse')
    cb = ctx.facts.find('<rpki::repository::x509::Time as utils::binio::Compose>::compose')
    if len(pb) != 1 or len(cb) != 1:
        ctx.bad('K7', 'anchor:Time-codec', 'Time codec not found')
        return
    secs_only = bool(cb[0].calls('re:::timestamp$')) and not cb[0].calls(['re:timestamp_subsec', 're:timestamp_nanos', 're:::nanosecond$'])
    const_nanos = any(arg_desc(s, 2) == 'const(0)' for s in pb[0].calls('re:::timestamp_opt$'))
    if secs_only and const_nanos:
        producers = []
        for b in ctx.facts.all_bodies():
            if not b.file.endswith('src/store.rs') or b.rec.get('derive'):
                continue
            for site in agg_sites(b, 'store::UpdateStatus'):
                d = describe(b.origin_of_operand(site.stmt['rv']['ops'][0])) if site.stmt['rv']['ops'] else ''
                if 'Time::now' in d:
                    producers.append('%s:UpdateStatus::%s(Time::now())' % (b.nid, site.stmt['rv']['variant']))
            for s in b.calls('store::StoredStatus::new'):
                if 'Time::now' in arg_desc(s, 0):
                    producers.append('%s:StoredStatus::new(Time::now())' % b.nid)
        producers = sorted(set(producers))
        ctx.check(not producers, 'K7', 'lossy:Time:subsecond-dropped',
                  'no producer supplies sub-second times',
                  'Time is persisted as whole seconds (Compose writes timestamp(), Parse reads nanoseconds = 0) while the records are '
                  'produced from Time::now() (sub-second precision) in %s: the value read back differs from the one written'
                  % producers, loc=cb[0].file + ':%d' % cb[0].line)
    else:
        ctx.ok('K7', 'lossy:Time:subsecond-dropped', 'Time codec keeps what it writes')


RULES = [rule_option_sentinels, rule_field_order, rule_records, rule_primitives, rule_decoder_domain, rule_lossy]
