"""C22 Status and metrics documents are always well-formed (K6 sink typing, escaper necessary conditions)."""
import re
from lib.facts import norm, Site
from lib.fmtctx import placeholders, inert_reason
from lib.tables import describe
from lib.rules import arg_desc

META = dict(
    level='other',
    explanation=(
        'K6 sink typing with the escapers\' necessary conditions. (1) Every value formatted by utils::json::JsonBuilder '
        '(member_str/member_raw/array_str/array_raw/append_key) is wrapped in json_str(); in the JSON status handler '
        '(http::status) no value is interpolated inside a quoted context outside JsonBuilder. (2) json_str\'s writer must '
        'distinguish `"`, `\\` AND the control characters (< 0x20) - all three classes are looked for as character tests in '
        'the MIR of <WriteJsonStr as fmt::Write>::write_str and its closures - and the str slice indices it uses must be '
        'byte offsets (results of find/char_indices/len), never positions counted by chars().enumerate(). (3) Prometheus: '
        'the value placeholder of LabelValue::label sits inside quotes and must be of the escaping wrapper type whose '
        'writer handles `\\`, `"` and line feed; every other quoted placeholder in http::metrics must have an inert type '
        '(table in lib/fmtctx.py) or be a string constant.'),
    decides='which values can reach a quoted context unescaped; presence of all required escape classes',
    undecided='that the escapers\' output is exactly the JSON / Prometheus escape grammar for every code point',
    trusted_base=['rustc MIR construction + callee resolution', 'Display of the inert types emits no quote/backslash/control characters'],
    rules=['K6 JsonBuilder wraps with json_str', 'K6 no quoted interpolation in http::status', 'escaper classes of json_str',
           'slice-index provenance', 'K6 Prometheus label escaping'],
)


def char_tests(ctx, body, only=None):
    """(op, char) for comparisons with char constants, plus array-of-char patterns and switch targets on chars."""
    found = set()
    bodies = only if only is not None else [body] + ctx.closures(body)
    for b in bodies:
        for site, s in b.stmts():
            if s['s'] != 'assign':
                continue
            rv = s['rv']
            if rv['r'] == 'bin':
                for x, y in ((rv['a'], rv['b']), (rv['b'], rv['a'])):
                    if 'k' in y and y['k'].get('ty') == 'char':
                        found.add((rv['op'] if y is rv['b'] else 'rev' + rv['op'], y['k'].get('v')))
            if rv['r'] == 'agg' and rv.get('kind') == 'array':
                for o in rv['ops']:
                    if 'k' in o and o['k'].get('ty') == 'char':
                        found.add(('in', o['k'].get('v')))
        for i in b.switches():
            t = b.blocks[i]['term']
            if t.get('dty') in ('char', 'u8'):
                for v, _tb in t['targets']:
                    found.add(('match', v))
        for c in b.calls(['char::is_control', 'char::is_ascii_control', 'core::char::methods::<impl char>::is_control',
                          'core::char::methods::<impl char>::is_ascii_control', 'u8::is_ascii_control']):
            found.add(('call', 'is_ascii_control' if 'ascii' in c.callee else 'is_control'))
    return found


def rule_json_str(ctx):
    b = ctx.body('<utils::json::json_str::WriteJsonStr as std::fmt::Write>::write_str')
    # If the escaper SEARCHES for the characters to escape with a predicate closure (str::find(|ch| ..)), the classes must
    # all be in that predicate: a class that only appears in the later "which escape form" match is never reached.
    preds = []
    for s in b.calls(['re:str.*::find$', 're:::find$', 're:::position$', 're:::split$', 're:::char_indices$']):
        for a in s.term['args'][1:]:
            o = b.origin_of_operand(a)
            while o is not None and o.kind in ('ref', 'cast'):
                o = o.base
            if o is not None and o.kind == 'agg' and o.rv.get('kind') == 'closure':
                preds += ctx.facts.find(norm(o.rv['def']))
            elif isinstance(a, dict) and isinstance(a.get('k'), dict) and a['k'].get('fn'):
                # a named predicate function passed as a value (`s.find(needs_escape)`)
                preds += ctx.facts.find(norm(a['k']['fn']))
    tests = char_tests(ctx, b, only=preds) if preds else char_tests(ctx, b)
    ctx.extra['json_str_search_predicate'] = [x.nid for x in preds]
    has_quote = any(v in ("'\"'", 34) for _o, v in tests)
    has_bs = any(v in ("'\\\\'", 92) for _o, v in tests)
    has_ctl = any((o in ('Lt', 'revGt') and v in ("' '", "'\\u{20}'")) or (o in ('Le', 'revGe') and v in ("'\\u{1f}'", "'\\x1f'"))
                  or (o == 'call') for o, v in tests)
    ctx.check(has_quote, 'esc', 'json_str:escapes-quote', 'json_str tests for `"`', 'json_str does not look for `"`')
    ctx.check(has_bs, 'esc', 'json_str:escapes-backslash', 'json_str tests for `\\`', 'json_str does not look for `\\`')
    ctx.check(has_ctl, 'esc', 'json_str:escapes-control',
              'json_str tests for control characters (< 0x20)',
              'json_str only looks for %s: control characters (tab, CR, ESC ... as found in log messages taken from rsync/RRDP '
              'errors) are written verbatim into JSON strings, which makes /api/v1/status unparseable' % sorted(map(str, tests)),
              loc=b.file + ':%d' % b.line)
    ctx.extra['json_str_char_tests'] = sorted(map(str, tests))
    # The escape arm works on BYTES (s.as_bytes()[idx], &s[idx + 1..]): every character the search predicate selects must be
    # a one-byte (ASCII) character, otherwise the slice after it starts inside a UTF-8 sequence and panics.
    bytewise = False
    for bb_ in [b] + ctx.closures(b):
        for s_ in bb_.calls(['re:::index$']):
            for a in s_.term['args'][1:]:
                if 'AddWithOverflow' in describe(bb_.origin_of_operand(a)) and 'const(1)' in describe(bb_.origin_of_operand(a)):
                    bytewise = True
    wide = [v for o, v in tests if o == 'call' and v == 'is_control'] + \
           [v for o, v in tests if o in ('Gt', 'Ge', 'revLt', 'revLe') and isinstance(v, str) and v.startswith("'\\u{")]
    ctx.check(not (bytewise and wide), 'esc', 'json_str:predicate-selects-ascii-only',
              'the search predicate selects one-byte characters only, as the byte-wise escape arm requires',
              'json_str searches with a predicate that also matches multi-byte characters (%s, e.g. the C1 controls U+0080..U+009F) '
              'but escapes byte-wise (`&s[idx + 1..]`): such a character makes the slice start inside a UTF-8 sequence and the '
              'writer panics - /status, the JSON and SLURM outputs abort for a TAL name or comment containing it' % wide,
              loc='%s:%d' % (b.file, b.line))
    # slice indices are byte offsets
    n = 0
    for bb in [b] + ctx.closures(b):
        for s in bb.calls(['re:Index(Mut)?<.*> for str>::index', 're:str::traits::<impl .*Index.*for str>::index', 're:<str as .*Index.*>::index',
                           're:::index$']):
            if 'str' not in (s.term['fn'].get('self') or '') and 'str' not in s.callee:
                continue
            n += 1
            d = arg_desc(s, 1)
            ctx.check('enumerate' not in d, 'prov', 'json_str:slice-index-is-byte-offset',
                      'slice bounds come from byte offsets (%s)' % d[:80],
                      'a str slice in json_str is indexed with a position counted by chars().enumerate() (%s): for non-ASCII '
                      'text this is not a byte offset - the escape lands on the wrong byte or the slice panics' % d[:120], loc=s.loc())
        for s in bb.calls('Iterator::enumerate'):
            d = arg_desc(s, 0)
            if 'chars' in d and 'char_indices' not in d:
                # is the index used for slicing?
                pass
    ctx.floor('prov', 'str slices in json_str', n, 1)
    # JsonBuilder wraps everything
    nb = 0
    for m in ('member_str', 'member_raw', 'array_str', 'array_raw', 'append_key'):
        jb = ctx.body('utils::json::JsonBuilder::' + m)
        phs = placeholders(jb, ctx.repo)
        for ph in phs:
            nb += 1
            ok = ph.found and 'json_str(' in describe(ph.origin)
            ctx.check(ok, 'K6', 'JsonBuilder::%s:wrapped' % m, 'value written through json_str()',
                      'JsonBuilder::%s writes a value without json_str()' % m, loc=ph.loc())
    ctx.floor('K6', 'formatted values in JsonBuilder', nb, 5)


def rule_status(ctx):
    n_q = 0
    n = 0
    for b in ctx.facts.all_bodies():
        if not b.file.endswith('src/http/status.rs'):
            continue
        if not ('api_status' in b.nid or 'json' in b.nid.lower()):
            continue
        ctx.bodies.add(b.nid)
        for ph in placeholders(b, ctx.repo):
            n += 1
            if not ph.found:
                ctx.bad('K6', 'status:placeholder-unresolved:%s' % b.nid, 'cannot locate the template of a formatted value (%s)' % ph.why, loc=ph.loc())
                continue
            if ph.quoted:
                n_q += 1
                ok = inert_reason(ph.ty) is not None or 'json_str(' in describe(ph.origin)
                ctx.check(ok, 'K6', 'status-json:quoted:%s' % b.nid, 'inert/escaped value in quotes',
                          'a value of type %s is interpolated inside quotes in the JSON status handler without json_str()' % ph.ty, loc=ph.loc())
    ctx.extra['status_json_placeholders'] = n
    ctx.extra['status_json_quoted_placeholders'] = n_q
    # strings reach the document only through JsonBuilder
    h = ctx.body('http::status::handle_api_status')
    ctx.check(any(x.calls('utils::json::JsonBuilder::build') for x in [h] + ctx.closures(h)), 'K3', 'handle_api_status:uses-JsonBuilder',
              'the status document is produced with JsonBuilder', 'handle_api_status no longer builds its document with JsonBuilder')
    # member_raw / array_raw are only given inert types
    nr = 0
    for pat in ('utils::json::JsonBuilder::member_raw', 'utils::json::JsonBuilder::array_raw'):
        for s in ctx.facts.callers(pat):
            nr += 1
            # raw members are still json_str-escaped but unquoted: a non-numeric value would break the document
            targs = s.term['fn'].get('targs') or []
            vt = targs[-1] if targs else '?'
            ok = inert_reason(vt) is not None or vt in ('&str', "&'static str") and 'const(' in arg_desc(s, 2)
            if not ok and vt.startswith('std::fmt::Arguments'):
                sp = s.term['span']
                inner = [ph for ph in placeholders(s.body, ctx.repo) if sp['line'] <= ph.line <= sp['eline']]
                ok = bool(inner) and all(ph.found and inert_reason(ph.ty) is not None for ph in inner)
                vt = 'format_args!(%s)' % ','.join(ph.ty for ph in inner)
            ctx.check(ok, 'K6', 'raw-member:%s<-%s' % (vt[:40], s.body.nid), 'raw member of inert type %s' % vt,
                      'JsonBuilder::%s receives a value of type %s (unquoted in the document)' % (pat.split('::')[-1], vt), loc=s.loc())
    ctx.floor('K6', 'raw member call sites', nr, 10)


def rule_metrics(ctx):
    lb = ctx.body('http::metrics::LabelValue::label')
    phs = [p for p in placeholders(lb, ctx.repo) if p.found and p.quoted]
    ctx.floor('K6', 'quoted placeholder in LabelValue::label', len(phs), 1)
    esc_ty = None
    for ph in phs:
        wrapped = 'Escape' in ph.ty or 'escape' in describe(ph.origin).lower()
        ctx.check(wrapped, 'K6', 'LabelValue::label:value-escaped',
                  'the label value is written through an escaping wrapper (%s)' % ph.ty[:60],
                  'the label value (%s) is interpolated between quotes verbatim: a quote, backslash or line feed in a TAL name '
                  'or URI makes the /metrics exposition unparseable' % ph.ty, loc=ph.loc())
        if wrapped:
            esc_ty = ph.ty
    if esc_ty:
        # the wrapper's writer distinguishes \\ " \n
        ws = [b for b in ctx.facts.all_bodies() if b.file.endswith('http/metrics.rs') and b.nid.endswith('Write>::write_str')]
        tests = set()
        for w in ws:
            ctx.bodies.add(w.nid)
            tests |= char_tests(ctx, w)
        vals = set(v for _o, v in tests)
        need = {34: '"', 92: '\\', 10: 'line feed'}
        alt = {34: "'\"'", 92: "'\\\\'", 10: "'\\n'"}
        for code, nm in need.items():
            ctx.check(code in vals or alt[code] in vals, 'esc', 'label-escape:handles:%s' % nm, 'label escaper handles %s' % nm,
                      'the label escaper does not handle %s' % nm)
    # every other quoted placeholder in http::metrics is inert or constant
    n = 0
    for b in ctx.facts.all_bodies():
        if not b.file.endswith('src/http/metrics.rs') or b.nid == lb.nid:
            continue
        for ph in placeholders(b, ctx.repo):
            if ph.found and ph.quoted:
                n += 1
                d = describe(ph.origin)
                ok = inert_reason(ph.ty) is not None or 'const(' in d
                ctx.check(ok, 'K6', 'metrics:quoted:%s' % b.nid, 'inert value in quotes', 'value of type %s (%s) in quotes in %s' % (ph.ty, d[:50], b.nid), loc=ph.loc())
    ctx.extra['other_quoted_placeholders_in_metrics'] = n
    # label names are constants or fixed words
    for s in ctx.facts.callers('http::metrics::LabelValue::label'):
        pass


RULES = [rule_json_str, rule_status, rule_metrics]
