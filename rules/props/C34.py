"""C34 Next-run scheduling respects refresh and min-refresh (K4/K13 clauses)."""
import re
from lib.rules import arg_desc, who_calls, writers_of_field, arg_path
from lib.tables import enumerate_paths, describe

from lib.rules import owned_by  # noqa: E402

META = dict(
    level='other',
    explanation=(
        'Clauses read off the two scheduling bodies. PayloadHistory::refresh_wait: on every path the result is '
        'max(time-until(next_update_start), floor) where floor = min_refresh if set else refresh, and the fallback used when '
        'next_update_start already lies in the past is a ZERO duration (so an already expired data set is re-validated after '
        'exactly the floor, not after a full refresh interval). SharedHistory::mark_update_done (K13): next_update_start is '
        'assigned now + refresh, and replaced by the data set\'s refresh time only on the edge where that time is strictly '
        'earlier (a monotone `min`), the refresh time being taken from the current snapshot; the field is written nowhere '
        'else after construction. The server loop waits refresh_wait() after a successful non-initial run.'),
    decides='lower bound (floor) and the bring-forward rule structurally; never longer than max(refresh, min_refresh) follows from min/now+refresh',
    undecided='Duration/SystemTime arithmetic and the clock',
    trusted_base=['rustc MIR construction + callee resolution', 'std cmp::max / SystemTime::duration_since'],
    rules=['K4 refresh_wait shape', 'K13 next_update_start monotone min', 'K3 writers', 'server loop uses refresh_wait'],
)


def rule_wait(ctx):
    """refresh_wait() = max(time until next_update_start or zero if that has passed, floor) with floor = min_refresh if
    configured, else refresh - as a truth table over the paths, whatever the shape (cmp::max, an explicit comparison,
    unwrap_or_else with a zero closure or a match on the Result)."""
    b = ctx.body('payload::history::PayloadHistory::refresh_wait')
    paths = [p for p in enumerate_paths(b, ctx.facts) if p.kind == 'return']
    ctx.floor('K4', 'paths of refresh_wait', len(paths), 2)
    ZERO = {'call:Duration::from_secs(const(0))', 'const(Duration::ZERO)', 'call:Default>::default', 'const(std::time::Duration::ZERO)',
            'call:Duration::from_millis(const(0))', 'call:Duration::new(const(0),const(0))'}
    zero_closure = False
    for c in ctx.closures(b):
        outs = set(p.outcome for p in enumerate_paths(c, ctx.facts))
        if outs and outs <= ZERO:
            zero_closure = True
    DS = 'call:SystemTime::duration_since(self.next_update_start,call:SystemTime::now)'

    def split2(inner):
        depth = 0
        for i, ch in enumerate(inner):
            depth += ch == '('
            depth -= ch == ')'
            if ch == ',' and depth == 0:
                return inner[:i], inner[i + 1:]
        return inner, ''
    seen = set()
    for p in paths:
        cm = p.cond_map()
        mr = [set(labs) for v, labs in cm.items() if v == 'self.min_refresh']
        floor = 'self.refresh' if mr and mr[0] == {'None'} else ('self.min_refresh@Some.0' if mr and mr[0] == {'Some'} else None)
        ds = [set(labs) for v, labs in cm.items() if v == DS]
        # the remaining time on this path
        if ds and ds[0] == {'Ok'}:
            until = {DS + '@Ok.0'}
        elif ds and ds[0] == {'Err'}:
            until = set(ZERO)
        else:
            until = {u for u in ['call:Result::unwrap_or_else(%s,refresh_wait::{closure#%d}())' % (DS, i) for i in range(4)]} if zero_closure else set()
            until |= {'call:Result::unwrap_or_default(%s)' % DS, 'call:Result::unwrap_or(%s,%s)' % (DS, 'call:Duration::from_secs(const(0))')}
        o = p.outcome or ''
        seen.add(('floor', floor))
        ctx.check(floor is not None, 'K4', 'refresh_wait:floor-selected', 'the floor is chosen by min_refresh', 'a path of refresh_wait does not test min_refresh')
        if floor is None:
            continue
        key = 'min_refresh=%s' % ('None' if floor == 'self.refresh' else 'Some')
        m = re.match(r'^call:(?:cmp::max|Ord>?::max)\((.*)\)$', o)
        if m:
            a1, a2 = split2(m.group(1))
            ok_floor = floor in (a1, a2)
            other = a2 if a1 == floor else a1
            ok_until = other in until
        else:
            # explicit comparison of the two
            cmpv = [(v, set(l)) for v, l in cm.items() if v.startswith('cmp(') and floor in split2(v[4:-1])]
            ok_floor = ok_until = False
            if cmpv:
                v, labs = cmpv[0]
                a1, a2 = split2(v[4:-1])
                other = a2 if a1 == floor else a1
                other_first = a1 != floor
                other_larger = labs == ({'Greater'} if other_first else {'Less'})
                floor_larger_or_equal = 'Equal' in labs or labs == ({'Less'} if other_first else {'Greater'})
                ok_until = other in until
                ok_floor = (other_larger and o == other) or (not other_larger and floor_larger_or_equal and o in (floor, other) and (o == floor or labs == {'Equal'}))
            elif ds and ds[0] == {'Err'} and o == floor:
                ok_floor = ok_until = True      # nothing left to wait for: the floor itself
        ctx.check(ok_floor, 'K4', 'refresh_wait:floor:%s' % key, 'the wait is never shorter than %s' % floor,
                  'with %s refresh_wait returns `%s`: the wait must be the larger of the remaining time and `%s`' % (key, o[:160], floor),
                  loc=p.ret_site.loc() if p.ret_site else None)
        ctx.check(ok_until, 'K4', 'refresh_wait:past-deadline=>zero',
                  'time until next_update_start, ZERO if it already passed',
                  'the remaining time in `%s` is not `next_update_start - now, or zero when that lies in the past`: when the data set has '
                  'expired the wait must collapse to the floor (min-refresh); anything else delays the re-validation of expired data' % o[:160],
                  loc=p.ret_site.loc() if p.ret_site else None)
        ctx.sample(dict(min_refresh=key, result=o[:200]))
    ctx.check({('floor', 'self.refresh'), ('floor', 'self.min_refresh@Some.0')} <= seen, 'K4', 'refresh_wait:both-floors',
              'both floors occur', 'refresh_wait no longer distinguishes min_refresh set / unset')


def rule_next_start(ctx):
    b = ctx.body('payload::history::SharedHistory::mark_update_done')
    n = 0
    for p in enumerate_paths(b, ctx.facts):
        cm = p.cond_map()
        val = None
        for (_k, (fld, desc)) in sorted(p.field_stores.items()):
            if fld == 'next_update_start':
                val = desc
        if val is None:
            ctx.bad('K13', 'mark_update_done:no-next-start', 'a path of mark_update_done does not set next_update_start')
            continue
        n += 1
        snap = [(v, labs) for v, labs in cm.items() if v.startswith('cmp(') and ('and_then(' in v or 'next_update_start' in v or 'refresh' in v.lower()) and 'timestamp(' not in v]
        if val.startswith('call:Add>::add(call:SystemTime::now,') and val.endswith('.refresh)'):
            # default: fine if no earlier snapshot refresh on this path
            if snap:
                ctx.check(all('Less' not in labs or labs != {'Less'} for _v, labs in snap), 'K13', 'next_update_start:default-when-not-earlier',
                          'now + refresh is kept when the data set does not expire earlier', 'now + refresh kept although the data set expires earlier')
        else:
            def earlier(v, labs):
                # cmp(A,B) with canonical operand order: which side is the data set's expiry?
                inner = v[4:-1] if v.startswith('cmp(') and v.endswith(')') else v
                depth, cut = 0, None
                for i, ch in enumerate(inner):
                    depth += ch == '('
                    depth -= ch == ')'
                    if ch == ',' and depth == 0:
                        cut = i
                        break
                a, b_ = (inner[:cut], inner[cut + 1:]) if cut is not None else (inner, '')
                first_is_expiry = 'and_then(' in a and 'and_then(' not in b_
                return labs == ({'Less'} if first_is_expiry else {'Greater'})
            ok = bool(snap) and all(earlier(v, labs) for v, labs in snap) and 'PayloadSnapshot::refresh' in ' '.join(
                pp.outcome for c in ctx.closures(b) for pp in enumerate_paths(c, ctx.facts))
            ctx.check(ok, 'K13', 'next_update_start:brought-forward-only-if-earlier',
                      'next_update_start is replaced by the data set expiry only when that is strictly earlier',
                      'next_update_start is set to `%s` under %s' % (val[:100], [(v[:60], sorted(l)) for v, l in snap]))
    ctx.floor('K13', 'paths setting next_update_start', n, 2)
    ws = [(bb, site) for bb, site, how, f in writers_of_field(ctx, 'payload::history::PayloadHistory') if f == 'next_update_start' and how == 'assign']
    for bb, site in ws:
        ok, who = owned_by(ctx, bb.nid, ['SharedHistory::mark_update_done'])
        ctx.check(ok, 'K3', 'next_update_start-writer<-%s' % who, 'written in mark_update_done',
                  'next_update_start written in %s' % bb.nid, loc=site.loc())
    ctx.floor('K3', 'assignments to next_update_start', len(ws), 1)
    cs = ctx.facts.callers('payload::history::PayloadHistory::refresh_wait')
    ctx.check(any(s.body.nid.startswith('operation::Server::run') for s in cs), 'K3', 'server-loop-uses-refresh_wait',
              'the server loop takes its wait from refresh_wait()', 'refresh_wait() is not used by the server loop')


def rule_snapshot_always_replaced(ctx):
    """mark_update_done schedules from `current.refresh()`: SharedHistory::update must install the new snapshot on every path."""
    from lib.rules import field_writes
    b = ctx.body('payload::history::SharedHistory::update')
    ws = [site for site, how, adt, f, place in field_writes(b) if adt.endswith('PayloadHistory') and f == 'current' and how == 'assign']
    ctx.floor('K13', 'assignment of PayloadHistory.current in update', len(ws), 1)
    nodes = {w.bb for w in ws}
    free = [r for r in b.returns() if b.path_avoiding(r.bb, avoid_nodes=nodes) is not None]
    ctx.check(bool(ws) and not free, 'K13', 'update:current-replaced-on-every-path',
              'every path through SharedHistory::update installs the new snapshot (its refresh time may differ although the payload is equal)',
              'SharedHistory::update can return without replacing `current`: the snapshot carries the expiry of the data set, so the '
              'next run is then scheduled from the expiry of an OLDER validation (too late when certificates were re-issued with a '
              'nearer expiry)', loc='%s:%d' % (b.file, b.line))
    for w in ws:
        from lib.tables import describe
        d = describe(b.origin_of_stmt(w))
        ctx.check('into_snapshot' in d, 'K13', 'update:current=new-snapshot', 'current is assigned the snapshot of this run (%s)' % d[:60],
                  'current is assigned `%s`, not the snapshot built from this run\'s report' % d[:100], loc=w.loc())



def rule_config_carried(ctx):
    """The timing parameters the schedule is computed from are the configured ones: PayloadHistory::from_config copies
    config.refresh / config.min_refresh unchanged and nothing else ever writes them."""
    from lib.rules import agg_sites
    b = ctx.body('payload::history::PayloadHistory::from_config')
    lits = agg_sites(b, 'payload::history::PayloadHistory')
    ctx.floor('K13', 'PayloadHistory literal in from_config', len(lits), 1)
    for l in lits:
        rv = l.stmt['rv']
        for fld, src in (('refresh', 'config.refresh'), ('min_refresh', 'config.min_refresh')):
            if fld not in rv['names']:
                ctx.bad('K13', 'from_config:%s:field-missing' % fld, 'PayloadHistory has no field %s any more' % fld)
                continue
            d = describe(b.origin_of_operand(rv['ops'][rv['names'].index(fld)]))
            ctx.check(d == src, 'K13', 'from_config:%s=%s' % (fld, src), '%s is the configured value' % fld,
                      'PayloadHistory.%s is initialised with `%s` instead of %s: the wait between runs is no longer bounded by the '
                      'configured value' % (fld, d[:120], src), loc=l.loc())
    n = 0
    for bb, site, how, f in writers_of_field(ctx, 'payload::history::PayloadHistory'):
        if f in ('refresh', 'min_refresh') and how == 'assign':
            n += 1
            ctx.bad('K3', '%s-writer<-%s' % (f, bb.nid), 'PayloadHistory.%s is re-assigned in %s' % (f, bb.nid), loc=site.loc())
    ctx.ok('K3', 'refresh/min_refresh:never-reassigned', 'no assignment to refresh / min_refresh after construction') if n == 0 else None

RULES = [rule_wait, rule_next_start, rule_snapshot_always_replaced, rule_config_carried]
