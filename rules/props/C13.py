"""C13 Serial-based synchronisation is exact or refused (K1, K4 clauses)."""
import re
from lib.facts import Site
from lib.rules import G, require_guards, arg_desc, who_calls, user_local_of, arg_path
from lib.tables import enumerate_paths, describe

META = dict(
    level='other',
    explanation=(
        'Clauses decided: K1 - PayloadHistory::delta_since is reachable only on the session-equality edge in '
        'PayloadSource::diff (RTR) and in http::delta::handle_get_or_head, and the State/serial returned with the delta comes '
        'from the same read guard. K4 on delta_since (RFC 1982 serial order is PARTIAL: serials 2^31 apart are incomparable, '
        'abstracted as a 4-valued relation): no history -> empty delta iff serial == 0 else refuse; front < serial -> refuse; '
        'front == serial -> empty delta; front == serial+1 -> the front delta; oldest retained delta == serial+1 -> served from '
        'the oldest delta (window clause: a client history-size serials behind needs all retained deltas); in the skip loop the '
        'rows are Greater -> refuse, Equal -> stop skipping, Less -> skip, and INCOMPARABLE (None) -> must refuse - merging '
        'None into the skip arm answers a never-issued serial with an empty change set tagged with the current serial. '
        'Merge provenance: the accumulator is the receiver of PayloadDelta::merge and the next newer delta its argument '
        '(AspaDelta::merge is not symmetric).'),
    decides='gating by session, the case table of delta_since incl. incomparable serials, and the merge order',
    undecided='that retained deltas have consecutive serials (C14), merge law (C12)',
    trusted_base=['rustc MIR construction + callee resolution', 'rpki::rtr::Serial PartialOrd is RFC 1982 (partial)'],
    rules=['K1 session gate', 'K4 delta_since case table', 'provenance of merge receiver/argument'],
)


def rule_gates(ctx):
    b = ctx.body('<payload::history::SharedHistory as rpki::rtr::server::PayloadSource>::diff')
    ds = b.calls('payload::history::PayloadHistory::delta_since')
    ctx.floor('K1', 'delta_since call in diff', len(ds), 1)
    require_guards(ctx, 'K1', b, ds, [G('session equal', cmp=('rtr_session', 'session'), cmp_want={'Equal'})],
                   'a serial of a foreign session must be refused')
    for s in ds:
        ctx.check(arg_desc(s, 1).endswith('State::serial(state)'), 'prov', 'diff:delta_since:arg', 'the client serial is passed', 'delta_since(%s)' % arg_desc(s, 1), loc=s.loc())
    h = ctx.body('http::delta::handle_get_or_head')
    ds = h.calls('payload::history::PayloadHistory::delta_since')
    ctx.floor('K1', 'delta_since call in http delta handler', len(ds), 1)
    require_guards(ctx, 'K1', h, ds, [G('session equal', cmp=('session', 'PayloadHistory::session'), cmp_want={'Equal'})],
                   'a serial of a foreign session must be answered with a full snapshot')
    who_calls(ctx, 'K3', 'payload::history::PayloadHistory::delta_since',
              ['<payload::history::SharedHistory as rpki::rtr::server::PayloadSource>::diff', 'http::delta::handle_get_or_head'], floor=2)


def rule_table(ctx):
    b = ctx.body('payload::history::PayloadHistory::delta_since')
    paths = enumerate_paths(b, ctx.facts)
    ctx.floor('K4', 'paths of delta_since', len(paths), 8)
    seen = set()
    for p in paths:
        cm = p.cond_map()

        def lab(rx):
            for v, labs in cm.items():
                if re.search(rx, v):
                    return labs
            return None
        front = lab(r'^call:VecDeque::front\(self\.deltas\)$')
        c_front = lab(r'^cmp\(call:PayloadDelta::serial\(call:VecDeque::front\(self\.deltas\)@Some\.0\),serial\)$')
        c_next = lab(r'^cmp\(call:PayloadDelta::serial\(call:VecDeque::front\(self\.deltas\)@Some\.0\),call:Serial::add\(serial')
        c_zero = lab(r'^cmp\(const\(0\),serial\)$')
        it = lab(r'^call:Iterator>::next\(')
        pc = lab(r'^call:PartialOrd>::partial_cmp\(.*\)$')
        pcs = lab(r'^call:PartialOrd>::partial_cmp\(.*\)@Some\.0$')
        refused = p.outcome == 'Option::None()'
        empty = p.outcome.startswith('Option::Some(call:Arc::new(call:PayloadDelta::empty(serial)')
        loc = p.ret_site.loc() if p.ret_site else None
        mt = re.match(r'^call:<impl bool>::then\((?:call:PartialEq>::eq|Eq)\((serial,const\(0\)|const\(0\),serial)\),.*\{closure#(\d+)\}.*\)$', p.outcome or '')
        if front == {'None'} and c_zero is None and mt:
            # `(serial == 0).then(|| Arc::new(PayloadDelta::empty(serial)))`: both rows in one expression
            outs = [cp.outcome or '' for c in ctx.closures(b) if c.nid.endswith('{closure#%s}' % mt.group(2)) for cp in enumerate_paths(c, ctx.facts)]
            good = bool(outs) and all(o.startswith('call:Arc::new(call:PayloadDelta::empty(') for o in outs)
            seen.add('nohist,0')
            seen.add('nohist,!0')
            ctx.check(good, 'K4', 'delta_since:no-history,serial=0', 'empty delta exactly for serial 0', 'no history -> %s with closure %s' % (p.outcome, outs), loc=loc)
            continue
        if front == {'None'}:
            if c_zero == {'Equal'}:
                seen.add('nohist,0')
                ctx.check(empty, 'K4', 'delta_since:no-history,serial=0', 'empty delta', 'no history & serial 0 -> %s' % p.outcome, loc=loc)
            else:
                seen.add('nohist,!0')
                ctx.check(refused, 'K4', 'delta_since:no-history,serial!=0', 'refused', 'no history & serial != 0 -> %s' % p.outcome, loc=loc)
            continue
        if c_front is None:
            ctx.bad('K4', 'delta_since:front-not-compared', 'a path with history does not compare front.serial() with the client serial')
            continue
        if c_front == {'Less'}:
            seen.add('future')
            ctx.check(refused, 'K4', 'delta_since:front<serial', 'future serial refused', 'front < serial -> %s' % p.outcome, loc=loc)
            continue
        if c_front == {'Equal'}:
            seen.add('current')
            ctx.check(empty, 'K4', 'delta_since:front==serial', 'client at current serial gets an empty delta', 'front == serial -> %s' % p.outcome, loc=loc)
            continue
        if c_next == {'Equal'}:
            seen.add('one-behind')
            ctx.check('VecDeque::front(self.deltas)@Some.0' in p.outcome, 'K4', 'delta_since:front==serial+1', 'one behind: the front delta',
                      'one behind -> %s' % p.outcome, loc=loc)
            continue
        # skip loop
        if p.kind == 'loop' or it is not None:
            if it == {'None'}:
                seen.add('loop-exhausted')
                continue
            if pc == {'None'} or (pc is not None and 'None' in pc):
                seen.add('loop-None')
                ctx.check(refused and p.kind == 'return', 'K4', 'delta_since:skip-loop:incomparable=>refuse',
                          'an incomparable serial is refused',
                          'in the skip loop an incomparable serial (partial_cmp == None, i.e. 2^31 away from a retained delta) '
                          'continues the loop instead of refusing: with a single retained delta the client is answered with '
                          'an EMPTY change set for a serial this session never issued', loc=loc or Site(b, p.blocks[-1]).loc())
            elif pc == {'Some'} or pc is None:
                if pcs == {'Greater'}:
                    seen.add('loop-Greater')
                    ctx.check(refused, 'K4', 'delta_since:skip-loop:Greater=>refuse', 'gap: refused', 'Greater -> %s' % p.outcome, loc=loc)
                elif pcs == {'Equal'}:
                    seen.add('loop-Equal')
                    ctx.check(p.kind == 'loop' or not refused, 'K4', 'delta_since:skip-loop:Equal=>stop', 'found the client serial', 'Equal -> refused')
                elif pcs == {'Less'}:
                    seen.add('loop-Less')
                    ctx.check(p.kind == 'loop', 'K4', 'delta_since:skip-loop:Less=>skip', 'older delta skipped', 'Less -> %s' % p.outcome)
                elif pcs is not None:
                    # merged arms, e.g. `_ => continue` covering Less and None
                    seen.add('loop-merged')
                    ctx.bad('K4', 'delta_since:skip-loop:incomparable=>refuse',
                            'the skip loop treats %s (and possibly an incomparable serial) alike: outcome %s/%s. An incomparable '
                            'serial must be refused' % (sorted(pcs), p.kind, p.outcome), loc=loc)
    # window clause: a client exactly as many serials behind as there are retained deltas needs ALL of them; the delta
    # that produced its serial is not retained (or never existed), so the scan for `Equal` cannot find its start. Some
    # test must recognise "the oldest retained delta is the one following the client's serial" and serve from there.
    oldest_rows = []
    for p in paths:
        for v, labs in p.cond_map().items():
            if v.startswith('cmp(') and re.search(r'Serial::add\(serial', v) and 'VecDeque::front' not in v:
                oldest_rows.append((p, v, labs))
    ctx.check(bool(oldest_rows), 'K4', 'delta_since:oldest==serial+1:tested',
              'the oldest retained delta is compared with serial+1 (a client history-size serials behind is recognised)',
              'delta_since never compares the oldest retained delta with serial+1: a client that is exactly as many serials behind '
              'as there are retained deltas (all the deltas it needs are still there) is refused, so only history-size - 1 old '
              'serials are ever served', loc='%s:%d' % (b.file, b.line))
    for p, v, labs in oldest_rows:
        if labs == {'Equal'}:
            seen.add('oldest-follows')
            ctx.check(p.outcome != 'Option::None()' or p.kind == 'loop', 'K4', 'delta_since:oldest==serial+1=>served',
                      'when the oldest retained delta follows the client serial the client is served',
                      'oldest == serial+1 -> refused (%s)' % p.outcome, loc=p.ret_site.loc() if p.ret_site else None)
    # an Option-level switch with a catch-all arm shows up as labels {'None', ...}
    need = {'nohist,0', 'nohist,!0', 'future', 'current', 'one-behind', 'loop-Greater', 'loop-Equal', 'loop-Less', 'loop-None'}
    ctx.check(need <= seen, 'K4', 'delta_since:all-cases', 'all %d cases present' % len(need), 'cases missing: %s' % sorted(need - seen))
    for c in sorted(seen):
        ctx.sample(dict(case=c))


def rule_merge_order(ctx):
    b = ctx.body('payload::history::PayloadHistory::delta_since')
    ms = b.calls('payload::delta::PayloadDelta::merge')
    folds = []
    if not ms:
        # `iter.fold(first, |merged, delta| merged.merge(delta))`: the accumulator is the closure's first parameter
        for c in ctx.closures(b):
            for s in c.calls('payload::delta::PayloadDelta::merge'):
                params = [d['name'] for d in sorted((d for d in c.rec.get('debug', []) if d.get('arg')), key=lambda d: d['arg'])]
                params = [x for x in params if not x.startswith('_') or True]
                recv, arg = arg_desc(s, 0), arg_desc(s, 1)
                acc = params[-2] if len(params) >= 2 else None
                nxt = params[-1] if params else None
                folds.append(s)
                ctx.bodies.add(c.nid)
                ctx.check(acc is not None and acc in recv and (nxt or '?') not in recv, 'prov', 'delta_since:merge:receiver=accumulator',
                          'fold accumulator .merge(next delta)',
                          'in the fold closure PayloadDelta::merge is called with receiver `%s` and argument `%s`: the accumulated (older) '
                          'delta must be the receiver' % (recv, arg), loc=s.loc())
                ctx.check(nxt is not None and nxt in arg, 'prov', 'delta_since:merge:argument=next-delta', 'argument is the next delta',
                          'merge argument is `%s`' % arg, loc=s.loc())
        ctx.check(bool(b.calls('re:Iterator(>)?::fold$')) or not folds, 'prov', 'delta_since:merge-in-fold', 'merge closure is driven by fold', 'merge closure not driven by fold')
    ctx.floor('prov', 'merge call in delta_since', len(ms) + len(folds), 1)
    for s in ms:
        recv = arg_desc(s, 0)
        arg = arg_desc(s, 1)
        ro = b.origin_of_operand(s.term['args'][0])
        while ro.kind in ('ref', 'cast') or (ro.kind == 'place' and all(x == '*' for x in ro.proj)):
            ro = ro.base
        is_acc = ro.kind == 'multi' and getattr(ro, 'user', False) and any('merge' in describe(a) for a in ro.alts)
        ctx.check(is_acc and 'next' not in recv, 'prov', 'delta_since:merge:receiver=accumulator',
                  'older accumulated delta .merge(newer delta)',
                  'PayloadDelta::merge is called with receiver `%s` and argument `%s`: the accumulated (older) delta must be the '
                  'receiver and the next newer delta the argument (the ASPA merge is order-sensitive)' % (recv, arg), loc=s.loc())
        ctx.check('next' in arg or 'delta' in arg, 'prov', 'delta_since:merge:argument=next-delta', 'argument is the next delta from the iterator',
                  'merge argument is `%s`' % arg, loc=s.loc())
    # iteration is oldest -> newest
    rev = b.calls('Iterator::rev')
    ctx.check(len(rev) >= 1 and 'self.deltas' in arg_desc(rev[0], 0), 'prov', 'delta_since:iterates-oldest-first',
              'retained deltas are visited oldest first (deltas.iter().rev(), newest is at the front)', 'iteration order of the retained deltas changed')


RULES = [rule_gates, rule_table, rule_merge_order]
