"""C06 Stale and premature manifests/CRLs follow the configured policy (K4, K1)."""
import re
from lib.rules import G, require_guards, arg_desc, agg_sites, fmt_path, arg_path
from lib.tables import enumerate_paths

META = dict(
    level='other',
    explanation=(
        'K4 policy tables at the four stale-policy sites (fetched manifest, fetched CRL, stored manifest, stored CRL): on '
        'every enumerated path on which is_stale() is true, policy Reject ends in the failure outcome (Ok(None) / Err) '
        'without constructing a ValidPointManifest, and policies Warn and Accept have a path that continues to the success '
        'outcome under the same remaining conditions; when is_stale() is false the policy is not consulted. Premature rule '
        '(K1, across process_collected / validate_collected_manifest / check_collected_is_newer): every path to '
        'StoredPoint::update passes the false edge of `thisUpdate > now`, unconditionally of the stale policy and of whether '
        'a stored manifest exists. K1 pruning: in process_stored a failed validate_stored_manifest leads only to '
        'reject_point + an empty child list (descendants are not scheduled).'),
    decides='the policy table for all four sites and the unconditional premature rejection, on every path',
    undecided='the clock; rpki is_stale() itself',
    trusted_base=['rustc MIR construction + callee resolution'],
    rules=['K4 stale policy x4', 'K1 premature', 'K1 reject prunes subtree'],
)

SITES = [
    ('engine::PubPoint::validate_collected_manifest', 'content', 'manifest(fetched)'),
    ('engine::PubPoint::validate_collected_crl', 'crl', 'crl(fetched)'),
    ('engine::PubPoint::validate_stored_manifest', 'content', 'manifest(stored)'),
    ('engine::PubPoint::validate_stored_manifest', 'crl', 'crl(stored)'),
]


def is_success(body_nid, p):
    o = p.outcome or ''
    if body_nid.endswith('validate_collected_crl'):
        return o.startswith('Result::Ok(Option::Some')
    if body_nid.endswith('validate_collected_manifest'):
        return o.startswith('Result::Ok(Option::Some')
    return o.startswith('Result::Ok(') and 'ValidPointManifest' in o


def is_failure(body_nid, p):
    o = p.outcome or ''
    return o in ('Result::Ok(Option::None())', 'Result::Err(Failed::Failed())') or o.startswith('Result::Err(')


def rule_stale(ctx):
    cache = {}
    for bpat, which, label in SITES:
        b = ctx.body(bpat)
        if bpat not in cache:
            try:
                cache[bpat] = enumerate_paths(b, ctx.facts, max_visits=2 if bpat.endswith('validate_collected_crl') else 1)
            except RuntimeError:
                ctx.bad('K4', '%s:too-many-paths' % bpat, 'path enumeration exceeded its bound (shape not recognised)')
                continue
        paths = [p for p in cache[bpat] if p.kind == 'return']
        loops = [p for p in cache[bpat] if p.kind == 'loop']
        # identify the is_stale var for this site
        def stale_var(cm):
            for v in cm:
                if re.match(r'^call:\w+::is_stale\(', v) or re.match(r'^call:\w+::is_stale$', v):
                    rec = v
                    if which == 'crl' and 'rl' in v.lower().split('is_stale')[0] + v.lower().split('is_stale')[1]:
                        if 'crl' in v.lower():
                            return v
                    if which == 'content' and 'content' in v.lower():
                        return v
            return None
        n_rej = n_cont = 0
        seen_stale = False
        for p in paths:
            cm = p.cond_map()
            sv = stale_var(cm)
            if sv is None:
                continue
            seen_stale = True
            pol = None
            for v, labs in cm.items():
                if v.endswith('validation.stale'):
                    pol = labs
            if cm[sv] == {'false'}:
                continue
            if cm[sv] == {'true'}:
                # policy must have been consulted on this path unless the path already failed before
                if pol is None:
                    ctx.check(False, 'K4', '%s:%s:stale-without-policy' % (b.nid, label), '',
                              'a stale %s is handled without consulting the stale policy (outcome %s)' % (label, p.outcome))
                    continue
                if pol == {'Reject'}:
                    n_rej += 1
                    ctx.check(is_failure(b.nid, p) and not is_success(b.nid, p), 'K4', '%s:%s:Reject=>no-data' % (b.nid, label),
                              'stale %s + policy reject ends in %s' % (label, p.outcome),
                              'stale %s with policy `reject` reaches outcome `%s`: the CA (and its descendants) would still '
                              'contribute payload' % (label, p.outcome), loc=p.ret_site.loc() if p.ret_site else None)
                elif 'Reject' not in pol:
                    if is_success(b.nid, p):
                        n_cont += 1
        if not seen_stale:
            ctx.bad('K4', '%s:%s:is_stale-not-branched' % (b.nid, label), 'no branch on is_stale() of the %s found' % label)
            continue
        ctx.floor('K4', 'reject paths for stale %s' % label, n_rej, 1)
        ctx.check(n_cont >= 1, 'K4', '%s:%s:Warn|Accept=>processed' % (b.nid, label),
                  'stale %s with policy warn/accept can still validate (%d success path(s))' % (label, n_cont),
                  'stale %s with policy warn/accept never reaches the success outcome: such CAs would be dropped although the '
                  'policy says to process them normally' % label)
        # Warn and Accept each individually reach success
        for polname in ('Warn', 'Accept'):
            hit = False
            for p in paths:
                cm = p.cond_map()
                sv = stale_var(cm)
                if sv and cm[sv] == {'true'} and is_success(b.nid, p):
                    for v, labs in cm.items():
                        if v.endswith('validation.stale') and polname in labs:
                            hit = True
            ctx.check(hit, 'K4', '%s:%s:%s=>processed' % (b.nid, label, polname),
                      'policy %s lets a stale %s through' % (polname, label), 'policy %s does not let a stale %s through' % (polname, label))
        ctx.sample(dict(site=label, body=b.nid, reject_paths=n_rej, continue_paths=n_cont))


def rule_premature(ctx):
    pc = ctx.body('engine::PubPoint::process_collected')
    vm = ctx.body('engine::PubPoint::validate_collected_manifest')
    cn = ctx.body('engine::PubPoint::check_collected_is_newer')
    prem = lambda: G('not premature', cmp=('this_update', 'Time::now'), cmp_want={'Less', 'Equal'})
    ok = False
    where = None
    # (a) in validate_collected_manifest, dominating the success literal
    e, sw = prem().edges(vm)
    lits = agg_sites(vm, 'engine::ValidPointManifest')
    if sw and lits and all(vm.path_avoiding(l.bb, avoid_edges=e) is None for l in lits):
        ok, where = True, 'validate_collected_manifest'
    # (b) in process_collected dominating the store update
    if not ok:
        e, sw = prem().edges(pc)
        ups = pc.calls('store::StoredPoint::update')
        if sw and ups and all(pc.path_avoiding(u.bb, avoid_edges=e) is None for u in ups):
            ok, where = True, 'process_collected'
    # (c) in check_collected_is_newer dominating every `true` return
    if not ok:
        e, sw = prem().edges(cn)
        if sw:
            good = True
            for p in enumerate_paths(cn, ctx.facts):
                if p.outcome == 'Result::Ok(const(1))' and p.ret_site is not None and cn.path_avoiding(p.ret_site.bb, avoid_edges=e) is not None:
                    good = False
            if good:
                ok, where = True, 'check_collected_is_newer'
    ctx.check(ok, 'K1', 'premature:update<=thisUpdate<=now',
              'a fetched manifest whose thisUpdate lies in the future can never reach the store update (check in %s)' % where,
              'there is a path on which a fetched manifest is accepted (ValidPointManifest built, newer-check passed, store '
              'updated) without the `thisUpdate > now` test having failed - e.g. when no manifest is stored yet',
              loc=vm.file + ':%d' % vm.line)
    # the premature test does not depend on the stale policy: on the path to it no switch on validation.stale
    if ok and where == 'validate_collected_manifest':
        for sbb in vm.switches():
            o, edges = vm.switch_edges(sbb)
            from lib.tables import order_edges
            oe = order_edges(o, edges)
            if oe and 'this_update' in oe[0] and 'Time::now' in oe[0]:
                pol = [s2 for s2 in vm.switches() if vm.switch_edges(s2)[0].path().endswith('validation.stale')
                       and vm.dominates(s2, sbb)]
                ctx.check(not pol, 'K1', 'premature:independent-of-policy', 'the premature test precedes any policy switch',
                          'the premature test is only reached after a stale-policy switch')


def rule_prune(ctx):
    b = ctx.body('engine::PubPoint::process_stored')
    e, sw = G('Err(validate_stored_manifest)', call='engine::PubPoint::validate_stored_manifest', labels={'Err', 'fail'}).edges(b)
    ctx.floor('K1', 'switch on validate_stored_manifest', len(sw), 1)
    rej = b.calls('engine::PubPoint::reject_point')
    for (_s, t) in e:
        r = b.reachable(t)
        ctx.check(any(x.bb in r for x in rej) and not any(x.bb in r for x in b.calls('engine::PubPoint::process_object')),
                  'K1', 'process_stored:invalid-manifest=>reject-no-objects',
                  'an invalid/rejected stored manifest leads to reject_point and no object is processed',
                  'after a failed validate_stored_manifest objects are still processed or the point is not rejected')
        for ret in b.returns():
            if ret.bb in r:
                p = b.path_avoiding(ret.bb, avoid_nodes=[x.bb for x in rej], start=t)
                ctx.check(p is None, 'K1', 'process_stored:invalid-manifest=>reject_point', 'reject_point on every such path',
                          'a path returns without reject_point', path=fmt_path(b, p))


RULES = [rule_stale, rule_premature, rule_prune]
