"""C27 Corrupt local data never crashes Routinator (K11 bounded allocation / panic audit)."""
import re
from lib.facts import norm, callee_name, Site
from lib.rules import G, arg_desc, fmt_path
from lib.tables import enumerate_paths, describe

META = dict(
    level='other',
    explanation=(
        'Audit over the bodies that decode local cache data (utils/binio.rs, utils/archive.rs, collector/rrdp/archive.rs, '
        'store.rs). (1) Bounded allocation: the size argument of every vec::from_elem / *::with_capacity site must not derive '
        'from a decoded value (Parse::parse, from_*_bytes, header fields) unless it passes through cmp::min(_, CONST); a '
        'positive example (selftest/positive: vec![0; decoded_len]) must be flagged by the same detector on every run. '
        '(2) Division: every DivisionByZero / RemainderByZero assertion site has a divisor that is a constant, in-memory '
        'state, or a header field whose reader rejects zero (ArchiveMeta::read: bucket_count == 0 -> Err). (3) Range '
        'indexing into the memory-mapped archive (Mmap::read / Mmap::write) is reachable only through the Some edge of '
        'checked_add(start, len) and the not-greater edge of `end > self.len`, and StorageRead::new rejects a start position '
        'beyond the file size before any access. (4) Panic audit: every unwrap/expect/panic!/bounds-check site in those '
        'files is in a reviewed allowlist with one reason each; arithmetic-overflow assertions are excluded (absent in the '
        'release profile). A new site is reported.'),
    decides='no allocation sized by unchecked decoded lengths, no division by file-controlled zero, guarded mmap slicing, no unreviewed panic site',
    undecided='panics inside the rpki / bytes / std crates; memory use of the decoded objects themselves',
    trusted_base=['rustc MIR construction + callee resolution'],
    rules=['K11 allocation provenance', 'K11 divisor provenance', 'K1 mmap range guards', 'K11 panic-site allowlist'],
)

FILES = ('src/utils/binio.rs', 'src/utils/archive.rs', 'src/collector/rrdp/archive.rs', 'src/store.rs')
DECODED = re.compile(r'Parse>?::parse|from_ne_bytes|from_be_bytes|from_le_bytes|::read_u\d+|ObjectHeader::read|\.size\b|data_len|name_len')
ALLOC = ['re:vec::from_elem$', 're:::with_capacity$', 're:::with_capacity_in$', 're:Vec.*::reserve(_exact)?$', 're:::resize$']

PANIC_ALLOW = {
    # (body, what) : reason
    ('collector::rrdp::archive::RrdpArchive::publish_state', 'expect'): 'composing into a Vec<u8> cannot fail',
    ('collector::rrdp::archive::RrdpArchive::update_state', 'expect'): 'composing into a Vec<u8> cannot fail',
    ('collector::rrdp::archive::SnapshotRrdpArchive::publish_state', 'expect'): 'composing into a Vec<u8> cannot fail',
    ('collector::rrdp::archive::FallbackTime::best_before::{closure#0}', 'unwrap'): 'constant i64::MAX milliseconds is a valid chrono duration; not on a decode path',
    ('utils::archive::Archive::publish_replace', 'panic'): 'test-only helper (cfg(test) callers); not on a decode path',
    ('utils::archive::Archive::write_object::{closure#0}', 'expect'): 'padding length: guarded by the preceding size computation on the WRITE path (sizes derive from the data being written)',
    ('utils::archive::AppendArchive::write_object', 'expect'): 'same as Archive::write_object; write path of a new archive',
    ('utils::archive::Archive::verify', 'BoundsCheck'): 'index into a fixed 3-element stats array by a constant-bounded loop in the diagnostics command',
    ('utils::archive::AppendIndex::get', 'BoundsCheck'): 'index is `hash % 1024` into a 1024-element in-memory table',
    ('utils::archive::AppendIndex::set', 'BoundsCheck'): 'index is `hash % 1024` into a 1024-element in-memory table',
}
DIV_ALLOW = {
    'utils::archive::AppendIndex::get': 'divisor is the length of the in-memory bucket table of an archive under construction (constant 1024)',
    'utils::archive::AppendIndex::set': 'same',
    'utils::archive::ArchiveStats::print': 'diagnostic output of `routinator` archive statistics, not on a decode path; divisors are counters printed for non-empty archives',
}


def decode_bodies(ctx):
    for b in ctx.facts.all_bodies():
        if b.file.endswith(FILES) and not b.rec.get('derive') and '::test::' not in b.nid:
            yield b


def alloc_violations(facts, bodies):
    out = []
    n = 0
    for b in bodies:
        for s in b.calls(ALLOC):
            n += 1
            args = s.term['args']
            if not args:
                continue
            size_arg = args[-1]
            o = b.origin_of_operand(size_arg)
            d = describe(o)
            if DECODED.search(d) and 'cmp::min(' not in d:
                out.append((b, s, d))
                continue
            # the size is a parameter of a helper (fn read_vec(source, len)): look at what the callers pass (one level)
            for leaf in o.leaves():
                if leaf.kind != 'param' or 'cmp::min(' in d:
                    continue
                idx = None
                for dbg in b.rec.get('debug', []):
                    if dbg['name'] == leaf.name and dbg.get('arg') is not None:
                        idx = dbg['arg'] - 1
                if idx is None:
                    continue
                for cs in facts.callers(b.nid):
                    if '::test::' in cs.body.nid or idx >= len(cs.term['args']):
                        continue
                    cd = describe(cs.body.origin_of_operand(cs.term['args'][idx]))
                    if DECODED.search(cd) and 'cmp::min(' not in cd:
                        out.append((b, s, 'parameter `%s` <- %s at %s' % (leaf.name, cd[:70], cs.loc())))
                        break
    return n, out


def rule_alloc(ctx):
    n, bad = alloc_violations(ctx.facts, list(decode_bodies(ctx)))
    ctx.floor('K11', 'allocation sites in decode files', n, 2)
    for b, s, d in bad:
        ctx.bad('K11', 'alloc-by-decoded-length:%s' % b.nid,
                '%s allocates %s with a size taken from decoded data (%s) without an upper bound: a corrupt length field makes '
                'routinator allocate far beyond the file size and abort' % (b.nid, s.callee.split('::')[-1], d[:110]), loc=s.loc())
    if not bad:
        ctx.ok('K11', 'alloc-by-decoded-length', '%d allocation sites, none sized by an unchecked decoded value' % n)
    pn, pbad = alloc_violations(ctx.positive, list(ctx.positive.all_bodies())) if ctx.positive else (0, [])
    ctx.check(len(pbad) >= 1, 'K11', 'alloc:positive-example', 'the detector fires on the positive example (vec![0; decoded_len])',
              'positive example for the allocation detector missing or not detected')
    # the length-prefixed readers go through the bounded helper
    rv = ctx.facts.find('utils::binio::read_vec')
    ctx.extra['bounded_reader'] = [b.nid for b in rv]


def rule_div(ctx):
    n = 0
    for b in decode_bodies(ctx):
        reach = b.reachable(0)
        for i, blk in enumerate(b.blocks):
            t = blk['term']
            if blk['cleanup'] or i not in reach or t['t'] != 'assert':
                continue
            if not (t['msg'].startswith('DivisionByZero') or t['msg'].startswith('RemainderByZero')):
                continue
            n += 1
            # the divisor: operand of the Div/Rem that follows in the target block
            tgt = b.blocks[t['to']]
            div = None
            for st in tgt['stmts']:
                if st['s'] == 'assign' and st['rv']['r'] == 'bin' and st['rv']['op'] in ('Div', 'Rem'):
                    div = describe(b.origin_of_operand(st['rv']['b']))
            site = Site(b, i)
            if b.nid in DIV_ALLOW:
                ctx.ok('K11', 'divisor:%s' % b.nid, 'allowlisted: ' + DIV_ALLOW[b.nid], loc=site.loc())
                continue
            if div is not None and re.match(r'^const\(\d+\)$', div) and div != 'const(0)':
                ctx.ok('K11', 'divisor:%s' % b.nid, 'constant divisor %s' % div, loc=site.loc())
                continue
            if div is not None and 'bucket_count' in div:
                mr = ctx.body('utils::archive::ArchiveMeta::read')
                ok = False
                for p in enumerate_paths(mr, ctx.facts):
                    cm = p.cond_map()
                    z = [labs for v, labs in cm.items() if v.startswith('cmp(') and 'bucket_count' in v and 'const(0)' in v]
                    if p.outcome.startswith('Result::Ok') and z and z[0] and 'Equal' not in z[0]:
                        ok = True
                    if p.outcome.startswith('Result::Ok') and not z:
                        ok = False
                        break
                ctx.check(ok, 'K11', 'divisor:%s:bucket_count-nonzero' % b.nid,
                          'the bucket count read from the archive header is rejected when zero',
                          '%s divides by the bucket count taken from the archive file header and ArchiveMeta::read accepts 0: a '
                          'corrupt header makes every lookup panic with a division by zero' % b.nid, loc=site.loc())
                continue
            ctx.bad('K11', 'divisor:%s' % b.nid, 'division in %s by `%s`, which is neither constant nor a validated header field' % (b.nid, div), loc=site.loc())
    ctx.floor('K11', 'division sites in decode files', n, 3)


def rule_mmap(ctx):
    for m in ('read', 'write'):
        bs = ctx.facts.find('utils::archive::mmapimpl::Mmap::' + m)
        if len(bs) != 1:
            ctx.bad('K1', 'anchor:Mmap::' + m, 'anchor missing')
            continue
        b = bs[0]
        ctx.bodies.add(b.nid)
        idx = b.calls('re:Index(Mut)?.*::index(_mut)?$')
        ctx.floor('K1', 'range index in Mmap::' + m, len(idx), 1)
        e1, sw1 = G('checked_add is Some', call='re:checked_add$', labels={'Some'}).edges(b)
        e2, sw2 = G('end <= len', cmp=('checked_add', 'self.len'), cmp_want={'Less', 'Equal'}).edges(b)
        e2b, sw2b = G('end <= len', cmp=('checked_add', 'self.len'), cmp_want={'Greater', 'Equal'}).edges(b)
        for s in idx:
            p1 = b.path_avoiding(s.bb, avoid_edges=e1)
            ok2 = False
            for sbb in b.switches():
                from lib.tables import order_edges
                o, edges = b.switch_edges(sbb)
                oe = order_edges(o, edges)
                if oe and 'checked_add' in oe[0] and 'self.len' in oe[0]:
                    first_end = oe[0].index('checked_add') < oe[0].index('self.len')
                    want = {'Less', 'Equal'} if first_end else {'Greater', 'Equal'}
                    pe = [(sbb, tb) for tb, labs in oe[1].items() if labs and labs <= want]
                    if pe and b.path_avoiding(s.bb, avoid_edges=pe) is None:
                        ok2 = True
            ctx.check(bool(sw1) and p1 is None and ok2, 'K1', 'Mmap::%s:range-index-guarded' % m,
                      'the mapped region is sliced only after checked_add(start,len) succeeded and end <= mapped length',
                      'Mmap::%s slices the mapped file without the overflow-safe bounds test (checked_add + `end > self.len`): an '
                      'offset or length taken from a corrupt archive (beyond EOF) underflows/overflows the test and the slice panics '
                      '(abort in release builds)' % m, loc=s.loc(), path=fmt_path(b, p1))
    sr = ctx.facts.find('utils::archive::StorageRead::new')
    if len(sr) == 1:
        b = sr[0]
        ctx.bodies.add(b.nid)
        okret = [site for site, st in b.stmts() if st['s'] == 'assign' and st['lhs'] == [0] and st['rv']['r'] == 'agg' and st['rv'].get('variant') == 'Ok']
        good = False
        for sbb in b.switches():
            from lib.tables import order_edges
            o, edges = b.switch_edges(sbb)
            oe = order_edges(o, edges)
            if oe and 'start' in oe[0] and 'size' in oe[0]:
                first_start = oe[0].index('start') < oe[0].index('size')
                want = {'Less', 'Equal'} if first_start else {'Greater', 'Equal'}
                pe = [(sbb, tb) for tb, labs in oe[1].items() if labs and labs <= want]
                if pe and okret and all(b.path_avoiding(r.bb, avoid_edges=pe) is None for r in okret):
                    good = True
        ctx.check(good, 'K1', 'StorageRead::new:start<=size-on-every-path',
                  'a reader is only created for a start position inside the file, for the mapped and the plain-file variant alike',
                  'StorageRead::new can succeed (on some storage variant) for a start position beyond the end of the file', loc=b.file + ':%d' % b.line)
    else:
        ctx.bad('K1', 'anchor:StorageRead::new', 'anchor missing')


def rule_panics(ctx):
    n = 0
    for b in decode_bodies(ctx):
        reach = b.reachable(0)
        for i, blk in enumerate(b.blocks):
            t = blk['term']
            if blk['cleanup'] or i not in reach:
                continue
            what = None
            if t['t'] == 'assert' and t['msg'].startswith('BoundsCheck'):
                what = 'BoundsCheck'
            elif t['t'] == 'call':
                nm = callee_name(t)
                if re.search(r'(Option|Result)::unwrap$', nm):
                    what = 'unwrap'
                elif re.search(r'(Option|Result)::expect$', nm):
                    what = 'expect'
                elif 'panicking::' in nm or nm.endswith('::unreachable') or 'unwrap_failed' in nm:
                    what = 'panic'
                    if any('debug_assert' in str(m_) for m_ in (t.get('macros') or [])):
                        what = None     # debug_assert!/debug_assert_eq!: compiled out of release builds, like overflow checks
            if what is None:
                continue
            n += 1
            site = Site(b, i)
            key = (b.nid, what)
            ctx.check(key in PANIC_ALLOW, 'K11', 'panic-site:%s:%s' % (b.nid, what),
                      'reviewed: ' + PANIC_ALLOW.get(key, ''),
                      'new panic-capable site (%s) in %s, a body of the cache-decoding layer, that is not in the reviewed allowlist'
                      % (what, b.nid), loc=site.loc())
    ctx.floor('K11', 'panic-capable sites in decode files', n, 8)


RULES = [rule_alloc, rule_div, rule_mmap, rule_panics]
