"""C03 A publication point contributes one consistent object set."""
from lib.facts import callee_matches, norm, Site, path_matches
from lib.rules import arg_path, edges_from_call, fmt_path, field_writes

META = dict(
    level='other',
    explanation=(
        'K1/K2 in engine::PubPoint::process: every CFG path from the call of process_collected to the fallback call '
        'of process_stored passes a call of ProcessPubPoint::restart on the processor (the documented contract '
        '"drop all data collected so far"), so payload gathered from a fetched manifest whose update was abandoned '
        'cannot survive into the stored pass - independent of the (randomised) manifest entry order. K3 sibling '
        'rule: every ProcessPubPoint::restart implementation clears every collection its add_* methods push into '
        '(set of pushed Vec fields is a subset of the cleared fields). K1 in process_collected: an Ok(Ok(_)) result '
        'is produced only on the Ok edge of StoredPoint::update, never after an Abort. Fallback state: every field of '
        'engine::PubPoint that any body reachable from process_collected writes (resolved field owners in MIR; today '
        'metrics, processor, log) is reset in PubPoint::process on every path to the fallback process_stored (whole-field '
        'assignment, or restart() for the processor); the log book is the one listed accumulator.'),
    decides='no payload of an abandoned fetched manifest is kept when falling back to stored data, on every path',
    undecided='semantics of processors outside this crate',
    trusted_base=['rustc MIR construction + callee resolution'],
    rules=['K2 restart between process_collected and process_stored', 'K3 restart clears all pushed collections',
           'K1 Ok(Ok) only on Ok edge of store update', 'K2 every PubPoint field written by the collected attempt is reset before the stored pass'],
)


def rule_restart_on_fallback(ctx):
    b = ctx.body('engine::PubPoint::process')
    pcs = b.calls('engine::PubPoint::process_collected')
    pss = b.calls('engine::PubPoint::process_stored')
    rs = b.calls('engine::ProcessPubPoint::restart')
    ctx.floor('K2', 'process_collected call in PubPoint::process', len(pcs), 1)
    ctx.floor('K2', 'process_stored calls in PubPoint::process', len(pss), 1)
    for pc in pcs:
        for ps in pss:
            if not b.can_reach(pc.bb, ps.bb) or pc.bb == ps.bb:
                continue
            ctx.call_sites += 1
            good = [r for r in rs if 'processor' in arg_path(r, 0)]
            p = b.path_avoiding(ps.bb, avoid_nodes=[r.bb for r in good], start=pc.bb)
            ctx.check(p is None, 'K2', 'engine::PubPoint::process:restart-between-collected-and-stored',
                      'every path from process_collected (%s) to the fallback process_stored (%s) calls '
                      'ProcessPubPoint::restart on the processor (%s)' % (pc.loc(), ps.loc(), [r.loc() for r in good]),
                      'the fallback from an abandoned collected update to process_stored (%s) does not call '
                      'ProcessPubPoint::restart: payload already handed to the processor from the fetched manifest '
                      'is kept and mixed with the stored object set' % ps.loc(),
                      loc=ps.loc(), path=fmt_path(b, p))
            ctx.sample(dict(process_collected=pc.loc(), process_stored=ps.loc(), restart=[r.loc() for r in good]))


ACCUMULATING = {
    'log': 'diagnostic log book of the publication point: messages of the abandoned attempt are kept on purpose',
}


def rule_fallback_state(ctx):
    """Every field of engine::PubPoint that the collected attempt can modify is reset before the stored pass."""
    b = ctx.body('engine::PubPoint::process')
    pcs = b.calls('engine::PubPoint::process_collected')
    pss = b.calls('engine::PubPoint::process_stored')
    # bodies reachable from process_collected inside engine::PubPoint (incl. closures)
    start = ctx.body('engine::PubPoint::process_collected')
    seen = {start.nid: start}
    work = [start]
    while work:
        cur = work.pop()
        nxt = list(ctx.facts.closures_of(cur))
        for s in cur.calls(None):
            n = norm(s.callee)
            if n.startswith('engine::PubPoint::'):
                nxt += ctx.facts.find(n)
        for nb in nxt:
            if nb.nid not in seen and nb.nid.startswith('engine::PubPoint::'):
                seen[nb.nid] = nb
                work.append(nb)
    written = {}
    for nid, body in seen.items():
        ctx.bodies.add(nid)
        for site, how, adt, f, place in field_writes(body):
            if adt.endswith('engine::PubPoint'):
                written.setdefault(f, []).append((nid, how, site))
    ctx.floor('K2', 'PubPoint fields the collected attempt can modify', len(written), 3)
    for pc in pcs:
        for ps in pss:
            if not b.can_reach(pc.bb, ps.bb) or pc.bb == ps.bb:
                continue
            for f, ws in sorted(written.items()):
                if f in ACCUMULATING:
                    ctx.ok('K2', 'fallback-state:%s' % f, 'not reset on purpose: ' + ACCUMULATING[f])
                    continue
                resets = []
                for site, how, adt, ff, place in field_writes(b):
                    if adt.endswith('engine::PubPoint') and ff == f and how == 'assign':
                        resets.append(site.bb)
                if f == 'processor':
                    resets += [r.bb for r in b.calls('engine::ProcessPubPoint::restart') if 'processor' in arg_path(r, 0)]
                pth = b.path_avoiding(ps.bb, avoid_nodes=resets, start=pc.bb) if resets else [pc.bb, ps.bb]
                ctx.check(pth is None, 'K2', 'fallback-state:%s' % f,
                          'PubPoint.%s (modified by %s) is reset on every path from the abandoned collected attempt to process_stored'
                          % (f, sorted(set(w[0].split('::')[-1] for w in ws))[:4]),
                          'PubPoint.%s is modified while the fetched manifest is processed (%s) but is not reset before falling back '
                          'to the stored publication point: what the abandoned attempt left there (e.g. child CA tasks, counters) is '
                          'mixed into the result of the stored object set'
                          % (f, sorted(set('%s:%s' % (w[0].split('::')[-1], w[1]) for w in ws))[:4]),
                          loc=ps.loc(), path=fmt_path(b, pth) if pth else None)


def rule_restart_impls(ctx):
    impls = [i for i in ctx.facts.impls if i.get('trait') and norm(i['trait']).endswith('engine::ProcessPubPoint')]
    ctx.floor('K3', 'impls of ProcessPubPoint', len(impls), 1)
    for imp in impls:
        names = {it['name']: it['def'] for it in imp['items']}
        ctx.check('restart' in names, 'K3', 'impl-restart:%s' % norm(imp['self']),
                  '%s implements restart' % norm(imp['self']), '%s does not implement restart' % norm(imp['self']))
    # payload::validation: PubPointProcessor::restart -> PubPoint::restart, which clears all pushed vectors
    pr = ctx.body('<payload::validation::PubPointProcessor as engine::ProcessPubPoint>::restart')
    inner = pr.calls('payload::validation::PubPoint::restart')
    ctx.check(len(inner) == 1 and 'pub_point' in arg_path(inner[0], 0), 'K3', 'PubPointProcessor::restart->PubPoint::restart',
              'PubPointProcessor::restart resets self.pub_point via PubPoint::restart',
              'PubPointProcessor::restart does not reset self.pub_point', loc=pr.file)
    rb = ctx.body('payload::validation::PubPoint::restart')
    cleared = set()
    for s in rb.calls(['Vec::clear', 'std::vec::Vec::clear', 'Vec::truncate']):
        p = arg_path(s, 0)
        cleared.add(p.split('.')[-1])
    # assignments of a fresh/empty value also count
    for site, how, adt, f, place in field_writes(rb):
        if how == 'assign' and adt.endswith('validation::PubPoint'):
            cleared.add(f)
    pushed = {}
    for b in ctx.facts.find('re:^payload::validation::PubPoint::(add_|update_)') :
        ctx.bodies.add(b.nid)
        for s in b.calls(['Vec::push', 'Vec::extend', 'Vec::append', 'Vec::insert', 'Vec::extend_from_slice']):
            p = arg_path(s, 0)
            if p.startswith('self.'):
                pushed.setdefault(p.split('.')[1], []).append(s)
    ctx.floor('K3', 'payload vectors pushed to by PubPoint::add_*', len(pushed), 3)
    for f, sites in sorted(pushed.items()):
        ctx.check(f in cleared, 'K3', 'PubPoint::restart:clears:%s' % f,
                  'PubPoint::restart clears `%s` (pushed to at %s)' % (f, sites[0].loc()),
                  'PubPoint::restart does not clear `%s`, which add_* pushes payload into (%s)' % (f, sites[0].loc()),
                  loc=rb.file + ':%d' % rb.line)
    ctx.check('refresh' in cleared, 'K3', 'PubPoint::restart:resets:refresh',
              'PubPoint::restart resets the refresh deadline', 'PubPoint::restart does not reset `refresh`')


def rule_no_ok_after_abort(ctx):
    b = ctx.body('engine::PubPoint::process_collected')
    ups = b.calls('store::StoredPoint::update')
    ctx.floor('K1', 'StoredPoint::update call in process_collected', len(ups), 1)
    pass_edges, other, sw = edges_from_call(b, 'store::StoredPoint::update', {'Ok', 'pass'})
    ctx.floor('K1', 'switch on the update result', len(sw), 1)
    n = 0
    for site, s in b.stmts():
        if s['s'] != 'assign' or s['lhs'] != [0]:
            continue
        rv = s['rv']
        if rv['r'] != 'agg' or rv.get('variant') != 'Ok':
            continue
        inner = b.origin_of_operand(rv['ops'][0])
        if inner.kind == 'agg' and inner.what.endswith('Result::Ok'):
            n += 1
            p = b.path_avoiding(site.bb, avoid_edges=pass_edges)
            ctx.check(p is None, 'K1', 'process_collected:Ok(Ok)<=Ok(update)',
                      'Ok(Ok(_)) at %s is returned only on the Ok edge of StoredPoint::update' % site.loc(),
                      'Ok(Ok(_)) at %s can be returned although the store update did not complete' % site.loc(),
                      loc=site.loc(), path=fmt_path(b, p))
    ctx.floor('K1', 'Ok(Ok(_)) returns in process_collected', n, 2)


from props.C04 import rule_update_body  # noqa: E402  (an aborted update leaves manifest AND object file of the stored version in place)

RULES = [rule_fallback_state, rule_restart_on_fallback, rule_restart_impls, rule_no_ok_after_abort, rule_update_body]
