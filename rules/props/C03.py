"""C03 A publication point contributes one consistent object set."""
from lib.facts import callee_matches, norm, Site, path_matches
from lib.rules import arg_path, edges_from_call, fmt_path, field_writes

META = dict(
    level='other',
    explanation=(
        'K1/K2 in engine::PubPoint::process: every CFG path from the call of process_collected to the fallback call '
        'of process_stored passes a call of ProcessPubPoint::restart on the processor (the documented contract '
        '"drop all data collected so far"), so payload gathered from a fetched manifest whose update was abandoned '
        'cannot survive into the stored pass - independent of the (randomised) manifest entry order. K3 sibling '
        'rule: every ProcessPubPoint::restart implementation clears every collection its add_* methods push into '
        '(set of pushed Vec fields is a subset of the cleared fields). K1 in process_collected: an Ok(Ok(_)) result '
        'is produced only on the Ok edge of StoredPoint::update, never after an Abort.'),
    decides='no payload of an abandoned fetched manifest is kept when falling back to stored data, on every path',
    undecided='semantics of processors outside this crate',
    trusted_base=['rustc MIR construction + callee resolution'],
    rules=['K2 restart between process_collected and process_stored', 'K3 restart clears all pushed collections',
           'K1 Ok(Ok) only on Ok edge of store update'],
)


def rule_restart_on_fallback(ctx):
    b = ctx.body('engine::PubPoint::process')
    pcs = b.calls('engine::PubPoint::process_collected')
    pss = b.calls('engine::PubPoint::process_stored')
    rs = b.calls('engine::ProcessPubPoint::restart')
    ctx.floor('K2', 'process_collected call in PubPoint::process', len(pcs), 1)
    ctx.floor('K2', 'process_stored calls in PubPoint::process', len(pss), 2)
    for pc in pcs:
        for ps in pss:
            if not b.can_reach(pc.bb, ps.bb) or pc.bb == ps.bb:
                continue
            ctx.call_sites += 1
            good = [r for r in rs if 'processor' in arg_path(r, 0)]
            p = b.path_avoiding(ps.bb, avoid_nodes=[r.bb for r in good], start=pc.bb)
            ctx.check(p is None, 'K2', 'engine::PubPoint::process:restart-between-collected-and-stored',
                      'every path from process_collected (%s) to the fallback process_stored (%s) calls '
                      'ProcessPubPoint::restart on the processor (%s)' % (pc.loc(), ps.loc(), [r.loc() for r in good]),
                      'the fallback from an abandoned collected update to process_stored (%s) does not call '
                      'ProcessPubPoint::restart: payload already handed to the processor from the fetched manifest '
                      'is kept and mixed with the stored object set' % ps.loc(),
                      loc=ps.loc(), path=fmt_path(b, p))
            ctx.sample(dict(process_collected=pc.loc(), process_stored=ps.loc(), restart=[r.loc() for r in good]))


def rule_restart_impls(ctx):
    impls = [i for i in ctx.facts.impls if i.get('trait') and norm(i['trait']).endswith('engine::ProcessPubPoint')]
    ctx.floor('K3', 'impls of ProcessPubPoint', len(impls), 1)
    for imp in impls:
        names = {it['name']: it['def'] for it in imp['items']}
        ctx.check('restart' in names, 'K3', 'impl-restart:%s' % norm(imp['self']),
                  '%s implements restart' % norm(imp['self']), '%s does not implement restart' % norm(imp['self']))
    # payload::validation: PubPointProcessor::restart -> PubPoint::restart, which clears all pushed vectors
    pr = ctx.body('<payload::validation::PubPointProcessor as engine::ProcessPubPoint>::restart')
    inner = pr.calls('payload::validation::PubPoint::restart')
    ctx.check(len(inner) == 1 and 'pub_point' in arg_path(inner[0], 0), 'K3', 'PubPointProcessor::restart->PubPoint::restart',
              'PubPointProcessor::restart resets self.pub_point via PubPoint::restart',
              'PubPointProcessor::restart does not reset self.pub_point', loc=pr.file)
    rb = ctx.body('payload::validation::PubPoint::restart')
    cleared = set()
    for s in rb.calls(['Vec::clear', 'std::vec::Vec::clear', 'Vec::truncate']):
        p = arg_path(s, 0)
        cleared.add(p.split('.')[-1])
    # assignments of a fresh/empty value also count
    for site, how, adt, f, place in field_writes(rb):
        if how == 'assign' and adt.endswith('validation::PubPoint'):
            cleared.add(f)
    pushed = {}
    for b in ctx.facts.find('re:^payload::validation::PubPoint::(add_|update_)') :
        ctx.bodies.add(b.nid)
        for s in b.calls(['Vec::push', 'Vec::extend', 'Vec::append', 'Vec::insert', 'Vec::extend_from_slice']):
            p = arg_path(s, 0)
            if p.startswith('self.'):
                pushed.setdefault(p.split('.')[1], []).append(s)
    ctx.floor('K3', 'payload vectors pushed to by PubPoint::add_*', len(pushed), 3)
    for f, sites in sorted(pushed.items()):
        ctx.check(f in cleared, 'K3', 'PubPoint::restart:clears:%s' % f,
                  'PubPoint::restart clears `%s` (pushed to at %s)' % (f, sites[0].loc()),
                  'PubPoint::restart does not clear `%s`, which add_* pushes payload into (%s)' % (f, sites[0].loc()),
                  loc=rb.file + ':%d' % rb.line)
    ctx.check('refresh' in cleared, 'K3', 'PubPoint::restart:resets:refresh',
              'PubPoint::restart resets the refresh deadline', 'PubPoint::restart does not reset `refresh`')


def rule_no_ok_after_abort(ctx):
    b = ctx.body('engine::PubPoint::process_collected')
    ups = b.calls('store::StoredPoint::update')
    ctx.floor('K1', 'StoredPoint::update call in process_collected', len(ups), 1)
    pass_edges, other, sw = edges_from_call(b, 'store::StoredPoint::update', {'Ok', 'pass'})
    ctx.floor('K1', 'switch on the update result', len(sw), 1)
    n = 0
    for site, s in b.stmts():
        if s['s'] != 'assign' or s['lhs'] != [0]:
            continue
        rv = s['rv']
        if rv['r'] != 'agg' or rv.get('variant') != 'Ok':
            continue
        inner = b.origin_of_operand(rv['ops'][0])
        if inner.kind == 'agg' and inner.what.endswith('Result::Ok'):
            n += 1
            p = b.path_avoiding(site.bb, avoid_edges=pass_edges)
            ctx.check(p is None, 'K1', 'process_collected:Ok(Ok)<=Ok(update)',
                      'Ok(Ok(_)) at %s is returned only on the Ok edge of StoredPoint::update' % site.loc(),
                      'Ok(Ok(_)) at %s can be returned although the store update did not complete' % site.loc(),
                      loc=site.loc(), path=fmt_path(b, p))
    ctx.floor('K1', 'Ok(Ok(_)) returns in process_collected', n, 2)


RULES = [rule_restart_on_fallback, rule_restart_impls, rule_no_ok_after_abort]
