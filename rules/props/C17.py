"""C17 Notify long-poll never waits for a change that already happened (K2)."""
from lib.facts import origin_is_call, Site
from lib.rules import strip_origin, fmt_path

META = dict(
    level='other',
    explanation=(
        'Ordering rule over the pre-state-machine MIR of the async handler '
        'http::delta::handle_notify_get_or_head: the broadcast subscription (NotifySender::subscribe) must dominate '
        'every read of the served version from which the waiting `recv` is reachable, and the `recv` must be called '
        'on the receiver created by that subscription. With check-then-subscribe an update + notification between '
        'the two is lost and the request blocks although the version already differs (lost wake-up). The order of '
        'two calls in one CFG decides this for every interleaving.'),
    decides='the whole property: subscribe-before-check ordering for all schedules',
    undecided='tokio broadcast delivers every message sent after subscribe (trusted)',
    trusted_base=['rustc MIR construction (coroutine body before state-machine transform)',
                  'tokio::sync::broadcast: a receiver sees every message sent after subscribe()'],
    rules=['K2 subscribe dominates version read', 'K1 recv guarded by the version comparison',
           'provenance: recv receiver = result of subscribe'],
)

VERSION_READS = ['http::delta::need_wait', 'SharedHistory::read', 'PayloadHistory::session_and_serial',
                 'PayloadHistory::serial', 'PayloadHistory::session']


def rule(ctx):
    f = ctx.body('http::delta::handle_notify_get_or_head')
    cl = [c for c in ctx.closures(f) if c.rec['coroutine']]
    ctx.floor('K2', 'coroutine body of handle_notify_get_or_head', len(cl), 1)
    if not cl:
        return
    b = cl[0]
    recvs = b.calls('NotifyReceiver::recv')
    ctx.floor('K2', 'NotifyReceiver::recv call', len(recvs), 1)
    subs = b.calls('NotifySender::subscribe')
    ctx.floor('K2', 'NotifySender::subscribe call', len(subs), 1)
    reads = b.calls(VERSION_READS)
    for r in recvs:
        ctx.call_sites += 1
        # receiver provenance
        o = strip_origin(b.origin_of_operand(r.term['args'][0]))
        if o.kind == 'place':
            o = strip_origin(o.base)
        sub = o.site if (o.kind == 'call' and o.site in subs) else None
        ctx.check(sub is not None, 'prov', 'recv-receiver=subscribe',
                  'recv() is called on the receiver returned by subscribe() at %s' % (sub.loc() if sub else '?'),
                  'recv() receiver does not come from NotifySender::subscribe in this body (origin %s)' % o.path(),
                  loc=r.loc())
        pre = [v for v in reads if b.can_reach(v.bb, r.bb) and v.bb != r.bb]
        ctx.floor('K2', 'version reads preceding recv', len(pre), 1)
        for v in pre:
            ok = sub is not None and b.site_dominates(sub, v)
            path = None
            if not ok:
                path = fmt_path(b, b.path_avoiding(v.bb, avoid_nodes=[s.bb for s in subs]))
            ctx.check(ok, 'K2', 'handle_notify_get_or_head:subscribe<%s' % v.callee.split('::')[-1],
                      'subscribe() (%s) dominates the version read %s (%s)' % (sub.loc() if sub else '?', v.callee, v.loc()),
                      'the served version is read (%s at %s) before the notification subscription exists: an update '
                      'between the check and subscribe() is never seen and the request waits for a further change'
                      % (v.callee, v.loc()), loc=v.loc(), path=path)
            ctx.sample(dict(version_read=v.callee, at=v.loc(), subscribe=[s.loc() for s in subs], dominated=ok))
        # the wait is conditional on the comparison result
        guarded = False
        for sbb in b.switches():
            og, edges = b.switch_edges(sbb)
            if origin_is_call(og, VERSION_READS) is None and not any(origin_is_call(c, VERSION_READS) for c in og.leaves()):
                continue
            tr = [(sbb, t) for t, labs in edges.items() if labs == {'true'}]
            if tr and b.path_avoiding(r.bb, avoid_edges=tr) is None:
                guarded = True
        ctx.check(guarded, 'K1', 'recv-guarded-by-version-check',
                  'recv() is reachable only through the true edge of the version comparison',
                  'recv() is not guarded by the version comparison', loc=r.loc())


def rule_wait_iff_same_version(ctx):
    """The request waits exactly when the presented (session, serial) IS the served version."""
    import re as _re
    from lib.tables import enumerate_paths
    b = ctx.body('http::delta::need_wait')
    n = 0
    for p in enumerate_paths(b, ctx.facts):
        if p.kind != 'return' or not (p.outcome or '').startswith('Result::Ok('):
            continue
        n += 1
        inner = p.outcome[len('Result::Ok('):-1]
        if inner in ('const(0)', 'const(false)'):
            # no wait: only when the client presented no version at all
            cm = p.cond_map()
            nov = any('version_from_query' in v and labs == {'None'} for v, labs in cm.items())
            ctx.check(nov, 'K4', 'need_wait:no-wait-const<=no-version-presented', 'returns "do not wait" unconditionally only without a version',
                      'need_wait returns "do not wait" under %s' % {k[:50]: sorted(v) for k, v in cm.items()})
            continue
        m = _re.match(r'^call:PartialEq.*?::eq\((.*)\)$', inner)
        ok = bool(m) and 'session_and_serial' in m.group(1) and 'version_from_query' in m.group(1)
        ctx.check(ok, 'K4', 'need_wait:wait<=>version-equal',
                  'the request waits iff (session, serial) presented == session_and_serial() of the history',
                  'need_wait decides to wait on `%s` instead of equality of the presented (session, serial) with the served one: a client '
                  'whose version is outdated can be kept waiting (e.g. when the merged delta it would get is empty), or a client at the '
                  'current version is answered at once in a busy loop' % inner[:160], loc=p.ret_site.loc() if p.ret_site else None)
    ctx.floor('K4', 'Ok paths of need_wait', n, 2)
    # and the handler waits exactly on that result
    from lib.rules import who_calls
    who_calls(ctx, 'K3', 'http::delta::need_wait', ['http::delta::handle_notify_get_or_head'], floor=1)


RULES = [rule_wait_iff_same_version, rule]
