"""C04 Store holds only complete, verified publication points (K1, K3)."""
import re
from lib.facts import norm, path_matches, Site
from lib.rules import (G, require_guards, arg_desc, agg_sites, who_calls, arg_path, fmt_path, field_writes)
from lib.tables import describe

META = dict(
    level='other',
    explanation=(
        'K3: StoredPoint::update is called only from engine::PubPoint::process_collected, _update only from update; the '
        'manifest/object record writers (StoredManifest::write, StoredObject::write) and NamedTempFile::persist are called '
        'only from _update (plus the read-only dump path); File::create / fatal::create_file / write_file under store.rs are '
        'confined to an allowlist of header-only writers. K1: the update call is reachable only after a validated fetched '
        'manifest (Some edge of validate_collected_manifest) that passed check_collected_is_newer; inside _update the '
        'rename (persist) and EVERY mutation of the in-memory handle of the old version (fields `file`, `manifest` of '
        'StoredPoint: assignments, &mut borrows such as take()) are reachable only through the edge on which the object '
        'generator returned Ok(None) (all listed objects present and verified) - so an aborted or failed update leaves '
        'both the file and the open StoredPoint usable for the fallback in the same run; self.manifest is replaced only '
        'on the Ok edge of persist. In the generator closure a StoredObject is produced only for content that was loaded '
        'and matched its manifest hash, and the stored bytes are those verified bytes. Header-only writers write a '
        'LastAttempt status.'),
    decides='only complete verified sets replace stored data; abort/failed paths leave file and in-memory handle untouched',
    undecided='file-system semantics of rename(2); crash atomicity (C23)',
    trusted_base=['rustc MIR construction + callee resolution', 'tempfile::NamedTempFile::persist = rename(2)'],
    rules=['K3 store writers', 'K1 update gate', 'K1 persist / handle mutation only after generator exhaustion',
           'K1 StoredObject only from verified content'],
)

OKL = {'Ok', 'pass', 'Some'}


def rule_who(ctx):
    who_calls(ctx, 'K3', 'store::StoredPoint::update', ['engine::PubPoint::process_collected'])
    who_calls(ctx, 'K3', 'store::StoredPoint::_update', ['store::StoredPoint::update'])
    who_calls(ctx, 'K3', 'store::StoredManifest::write', ['store::StoredPoint::_update'])
    who_calls(ctx, 'K3', 'store::StoredObject::write', ['store::StoredPoint::_update'])
    who_calls(ctx, 'K3', 'tempfile::NamedTempFile::persist', ['store::StoredPoint::_update'])
    who_calls(ctx, 'K3', 'store::StoredPoint::reject', ['engine::PubPoint::check_collected_is_newer'])
    # raw file creation inside store.rs
    allowed = ['store::StoredPoint::open', 'store::StoredPoint::create', 'store::StoredPoint::reject',
               'store::Store::dump_object', 'store::Run::done', 'store::Run::update_ta', 'store::Store::tmp_file',
               'store::Store::dump', 'store::Store::dump_tree', 'store::Store::dump_point', 'store::Store::dump_repository_json']
    n = 0
    for pat in ['std::fs::File::create', 'utils::fatal::create_file', 'utils::fatal::write_file', 'std::fs::write',
                'std::fs::OpenOptions::open', 'std::fs::rename', 'tempfile::NamedTempFile::new_in', 'std::fs::copy']:
        for s in ctx.facts.callers(pat):
            if not s.body.nid.startswith('store::'):
                continue
            n += 1
            root = s.body.nid.split('::{')[0]
            ctx.check(any(path_matches(root, a) for a in allowed), 'K3', 'store-file-writer:%s<-%s' % (pat.split('::')[-1], root),
                      '%s in %s (allowlisted)' % (pat, root),
                      '%s is used in %s, which is not one of the known writers of the store' % (pat, root), loc=s.loc())
    ctx.floor('K3', 'file-creating call sites in store.rs', n, 6)


def rule_gate(ctx):
    b = ctx.body('engine::PubPoint::process_collected')
    ups = b.calls('store::StoredPoint::update')
    ctx.floor('K1', 'StoredPoint::update call in process_collected', len(ups), 1)
    require_guards(ctx, 'K1', b, ups, [
        G('Some(validate_collected_manifest)', call='engine::PubPoint::validate_collected_manifest', labels=OKL),
        G('check_collected_is_newer', call='engine::PubPoint::check_collected_is_newer', labels={'true'}),
    ], 'the store is updated only with a validated, strictly newer fetched manifest')
    for u in ups:
        d = arg_desc(u, 2)
        ctx.check('StoredManifest::new' in d, 'prov', 'process_collected:update:manifest-arg',
                  'the manifest stored is built from the validated collected manifest', 'update() stores `%s`' % d, loc=u.loc())
    for s in b.calls('store::StoredManifest::new'):
        ds = ' '.join(arg_desc(s, i) for i in range(len(s.term['args'])))
        ctx.check('validate_collected_manifest' in ds, 'prov', 'process_collected:StoredManifest::new:args',
                  'StoredManifest::new is fed from the validated manifest', 'StoredManifest::new is fed from `%s`' % ds, loc=s.loc())


def rule_update_body(ctx):
    b = ctx.body('store::StoredPoint::_update')
    gen_done = G('generator returned Ok(None)', call='FnMut::call_mut', labels={'None'})
    gen_ok = G('generator did not fail', call='FnMut::call_mut', labels={'pass'})
    e_done, sw = gen_done.edges(b)
    ctx.floor('K1', 'switch on the object generator result', len(sw), 2)
    persist = b.calls('tempfile::NamedTempFile::persist')
    ctx.floor('K1', 'persist call', len(persist), 1)
    require_guards(ctx, 'K1', b, persist, [gen_done, gen_ok], 'the temp file replaces the stored file only after all objects were written')
    # mutations of the in-memory handle
    muts = [(site, how, f) for site, how, adt, f, place in field_writes(b)
            if adt.endswith('store::StoredPoint') and f in ('file', 'manifest')]
    ctx.floor('K1', 'mutations of StoredPoint.file/.manifest in _update', len(muts), 3)
    for site, how, f in muts:
        p = b.path_avoiding(site.bb, avoid_edges=e_done)
        ctx.check(p is None, 'K1', '_update:mutates-%s<=generator-exhausted' % f,
                  'self.%s is touched (%s at %s) only after the object generator finished successfully' % (f, how, site.loc()),
                  'self.%s is modified (%s at %s) before it is known that the update completes: when the generator aborts '
                  '(missing file / hash mismatch) the old version is no longer usable through this StoredPoint and the '
                  'fallback in the same run sees no objects' % (f, how, site.loc()), loc=site.loc(), path=fmt_path(b, p))
    pe, psw = G('Ok(persist)', call='tempfile::NamedTempFile::persist', labels={'Ok'}).edges(b)
    for site, how, f in muts:
        if f == 'manifest' and how == 'assign':
            p = b.path_avoiding(site.bb, avoid_edges=pe)
            ctx.check(p is None, 'K1', '_update:manifest=new<=Ok(persist)',
                      'self.manifest is replaced only after the rename succeeded', 'self.manifest can be replaced although persist failed',
                      loc=site.loc())
    # every Err return leaves before persist: follows from the dominance above; also: abort propagates (no swallow)
    # the objects written are the generator's
    for s in b.calls('store::StoredObject::write'):
        d = arg_desc(s, 0)
        ctx.check('call_mut' in d, 'prov', '_update:object-written-from-generator', 'objects written come from the generator',
                  'StoredObject::write is applied to `%s`' % d, loc=s.loc())


def rule_closure(ctx):
    b = ctx.body('engine::PubPoint::process_collected')
    cls = [c for c in ctx.closures(b) if c.calls('store::StoredObject::new')]
    ctx.floor('K1', 'generator closure', len(cls), 1)
    for c in cls:
        sinks = c.calls('store::StoredObject::new')
        require_guards(ctx, 'K1', c, sinks, [
            G('Some(load_object)', call='collector::base::Repository::load_object', labels=OKL),
            G('Ok(ManifestHash::verify)', call='ManifestHash::verify', labels=OKL),
        ], 'only present, hash-matching files enter the store')
        for s in sinks:
            d = arg_desc(s, 1)
            ctx.check('load_object' in d, 'prov', 'closure:StoredObject::new:content', 'the stored content is the verified content',
                      'StoredObject::new stores `%s`' % d, loc=s.loc())
        # every early exit of the closure other than Ok(Some)/Ok(None) is an Err (abort): no "skip this file" path
        from lib.tables import enumerate_paths
        outs = set()
        n_done = n_item = 0
        for p in enumerate_paths(c, ctx.facts):
            outs.add(p.outcome.split('(')[0] + ('(' + p.outcome.split('(')[1].split('(')[0] if '(' in p.outcome else ''))
            cm = p.cond_map()

            def lab(rx):
                # the `?` on a call gives a pass/fail label, the match on its payload a variant label: prefer the variant
                found = None
                for v, labs in cm.items():
                    if re.search(rx, v) and len(labs) == 1:
                        l = list(labs)[0]
                        if found is None or found == 'pass':
                            found = l
                return found
            nxt = lab(r'^call:Iterator>?::next\(')
            if p.outcome.startswith('Result::Ok(Option::None'):
                n_done += 1
                ctx.check(nxt == 'None', 'K4', 'generator:Ok(None)<=manifest-list-exhausted',
                          'the generator signals "all objects written" only when the manifest file list is exhausted',
                          'the generator returns Ok(None) ("done") on a path where the manifest list is not exhausted (%s): the '
                          'remaining listed files are silently left out and the incomplete set replaces the stored point'
                          % {k[:40]: sorted(v) for k, v in cm.items()}, loc=p.ret_site.loc() if p.ret_site else None)
            elif nxt == 'Some':
                n_item += 1
                good = (lab(r'str_from_ascii') == 'Ok' and lab(r'Repository::load_object') == 'Some'
                        and lab(r'ManifestHash::verify') == 'Ok' and lab(r'^call:PubPoint::process_object$') in ('pass', None))
                if p.outcome.startswith('Result::Ok(Option::Some'):
                    ctx.check(good and lab(r'^call:PubPoint::process_object$') == 'pass', 'K4', 'generator:Ok(Some)<=all-checks',
                              'an object is handed to the store only if it was loaded, matched its hash and was processed',
                              'the generator yields an object although a check did not pass: %s' % {k[:40]: sorted(v) for k, v in cm.items()})
                else:
                    is_err = p.outcome.startswith('Result::Err(UpdateError::Abort') or 'load_object' in p.outcome or 'process_object' in p.outcome
                    ctx.check(is_err, 'K4', 'generator:listed-file-problem=>Err',
                              'a listed file that is missing / mismatching / unprocessable aborts the update',
                              'for a listed file the generator returns `%s` under %s instead of aborting the update'
                              % (p.outcome[:60], {k[:40]: sorted(v) for k, v in cm.items()}), loc=p.ret_site.loc() if p.ret_site else None)
        ctx.floor('K4', 'generator paths: exhausted', n_done, 1)
        ctx.floor('K4', 'generator paths: per listed file', n_item, 6)
        ctx.extra['generator_outcomes'] = sorted(outs)


def rule_header_only(ctx):
    for bpat in ['store::StoredPoint::open', 'store::StoredPoint::reject']:
        b = ctx.body(bpat)
        ws = b.calls('store::StoredPointHeader::write')
        ctx.floor('K3', 'header write in %s' % bpat, len(ws), 1)
        for w in ws:
            # a LastAttempt status is assigned before the write
            ok = False
            for site, how, adt, f, place in field_writes(b):
                if f == 'update_status' and how == 'assign':
                    rv = site.stmt['rv']
                    o = b.origin_of_operand(rv['o']) if rv['r'] == 'use' else None
                    la = (rv['r'] == 'agg' and rv.get('variant') == 'LastAttempt') or \
                         (o is not None and o.kind == 'agg' and o.what.endswith('LastAttempt'))
                    if la and b.site_dominates(site, w):
                        ok = True
            ctx.check(ok, 'K3', '%s:header-status=LastAttempt' % bpat,
                      'the header written in place by %s carries UpdateStatus::LastAttempt' % bpat,
                      '%s rewrites the file with a header whose status is not set to LastAttempt first' % bpat, loc=w.loc())
    nb = ctx.body('store::StoredPointHeader::new')
    lits = agg_sites(nb, 'store::StoredPointHeader')
    ok = False
    for l in lits:
        rv = l.stmt['rv']
        o = nb.origin_of_operand(rv['ops'][rv['names'].index('update_status')])
        if o.kind == 'agg' and o.what.endswith('LastAttempt'):
            ok = True
    ctx.check(ok, 'K3', 'StoredPointHeader::new:status=LastAttempt', 'a fresh header starts as LastAttempt',
              'StoredPointHeader::new does not start with LastAttempt')


RULES = [rule_who, rule_gate, rule_update_body, rule_closure, rule_header_only]
