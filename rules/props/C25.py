"""C25 RRDP updates reproduce the server state or report failure (K1, K4 clauses)."""
import re
from lib.facts import norm, Site
from lib.rules import G, require_guards, arg_desc, who_calls, arg_path, agg_sites, fmt_path
from lib.tables import enumerate_paths, describe

META = dict(
    level='other',
    explanation=(
        'Clauses. K1: SnapshotUpdate::try_update publishes the repository state and returns Ok only after the XML was '
        'processed and HashRead::verify_hash(notification snapshot hash) succeeded; DeltaUpdate::try_update returns Ok only '
        'after verify_hash(delta hash from the notification); both meta() callbacks refuse a session or serial different from '
        'the notified one. K4 on RepositoryUpdate::calc_deltas (order relations abstracted): different session -> NewSession; '
        'EQUAL serial (and only equal) -> nothing to do; last delta != notified serial -> BadDeltaSet; walking the list: first '
        'delta newer than local+1 -> OutdatedLocal, equal -> start, older -> skip; and a CONTIGUITY check: the selected deltas '
        'must have consecutive serials (or sort_and_verify_deltas must be branched on when the notification is read) - a '
        'gapped list must never be applied. K1 "updated implies a copy exists" in RepositoryUpdate::update: every path '
        'returning Ok(true) goes through Ok(true) of snapshot_update, None of delta_update, or the Not-Modified arm with a '
        'local copy present; Not Modified without a local copy is a failed update.'),
    decides='hash/meta gates before success, the delta-selection table incl. contiguity and strict equality, 304 handling',
    undecided='XML processing inside the rpki crate; equality of archive content with the server snapshot over all histories',
    trusted_base=['rustc MIR construction + callee resolution', 'rpki::rrdp ProcessSnapshot/ProcessDelta drive meta/publish/withdraw'],
    rules=['K1 verify_hash before success', 'K4 meta checks', 'K4 calc_deltas table + contiguity', 'K1 Ok(true) implies copy'],
)

OKL = {'Ok', 'pass', 'Some'}


def rule_hash_gates(ctx):
    su = ctx.body('collector::rrdp::update::SnapshotUpdate::try_update')
    sinks = su.calls(['collector::rrdp::archive::SnapshotRrdpArchive::publish_state', 'collector::rrdp::archive::SnapshotRrdpArchive::finalize'])
    ctx.floor('K1', 'publish_state/finalize in SnapshotUpdate::try_update', len(sinks), 2)
    require_guards(ctx, 'K1', su, sinks, [
        G('Ok(process)', call='re:ProcessSnapshot::process$', labels=OKL),
        G('Ok(verify_hash)', call='collector::rrdp::update::HashRead::verify_hash', labels=OKL),
    ], 'the snapshot must be completely processed and match the hash in the notification before its state is published')
    for s in su.calls('collector::rrdp::update::HashRead::verify_hash'):
        d = arg_desc(s, 1)
        ctx.check('snapshot' in d and 'hash' in d and 'notify' in d, 'prov', 'SnapshotUpdate:verify_hash:expected', 'expected hash = notification snapshot hash', 'expected hash = %s' % d, loc=s.loc())
    du = ctx.body('collector::rrdp::update::DeltaUpdate::try_update')
    e, sw = G('Ok(verify_hash)', call='collector::rrdp::update::HashRead::verify_hash', labels=OKL).edges(du)
    e2, sw2 = G('Ok(process)', call='re:ProcessDelta::process$', labels=OKL).edges(du)
    n = 0
    for site, st in du.stmts():
        if st['s'] == 'assign' and st['lhs'] == [0] and st['rv']['r'] == 'agg' and st['rv'].get('variant') == 'Ok':
            n += 1
            ctx.check(bool(sw) and du.path_avoiding(site.bb, avoid_edges=e) is None and bool(sw2) and du.path_avoiding(site.bb, avoid_edges=e2) is None,
                      'K1', 'DeltaUpdate::try_update:Ok<=verify_hash', 'a delta counts as applied only if its file matched the notified hash',
                      'DeltaUpdate::try_update can return Ok without a successful hash verification', loc=site.loc())
    ctx.floor('K1', 'Ok returns of DeltaUpdate::try_update', n, 1)
    for s in du.calls('collector::rrdp::update::HashRead::verify_hash'):
        d = arg_desc(s, 1)
        ctx.check('DeltaInfo::hash(self.info)' in d or ('info' in d and 'hash' in d), 'prov', 'DeltaUpdate:verify_hash:expected', 'expected hash = notification delta hash', 'expected hash = %s' % d, loc=s.loc())
    for bpat, exp_s, exp_n in (('<collector::rrdp::update::SnapshotUpdate as rpki::rrdp::ProcessSnapshot>::meta', 'session_id(self.notify.content)', 'serial(self.notify.content)'),
                               ('<collector::rrdp::update::DeltaUpdate as rpki::rrdp::ProcessDelta>::meta', 'self.session_id', 'serial(self.info)')):
        b = ctx.body(bpat)
        for p in enumerate_paths(b, ctx.facts):
            cm = p.cond_map()
            sess = [(v, labs) for v, labs in cm.items() if v.startswith('cmp(') and 'session_id' in v]
            ser = [(v, labs) for v, labs in cm.items() if v.startswith('cmp(') and 'serial' in v and 'session' not in v]
            if p.outcome.startswith('Result::Ok'):
                ok = bool(sess) and sess[0][1] == {'Equal'} and bool(ser) and ser[0][1] == {'Equal'}
                ctx.check(ok, 'K4', '%s:Ok<=session&serial-equal' % bpat.split('::')[-3], 'meta accepted only for the notified session and serial',
                          'meta() accepts under %s' % {k: sorted(v) for k, v in cm.items()})
                ok2 = any(exp_s.replace(' ', '') in v.replace(' ', '') for v, _l in sess) and any(exp_n.replace(' ', '') in v.replace(' ', '') for v, _l in ser)
                ctx.check(ok2, 'prov', '%s:compared-with-notification' % bpat.split('::')[-3], 'compared with the notified values', 'compared values: %s / %s' % (sess, ser))


def rule_calc_deltas(ctx):
    b = ctx.body('collector::rrdp::base::RepositoryUpdate::calc_deltas')
    paths = enumerate_paths(b, ctx.facts, max_visits=2)
    seen = set()
    for p in paths:
        cm = p.cond_map()

        def lab(rx):
            for v, labs in cm.items():
                if re.search(rx, v):
                    return v, labs
            return None, None
        _v, sess = lab(r'^cmp\(.*session.*\)$')
        v_ser, ser = lab(r'^cmp\(call:NotificationFile::serial\(notify\),state\.serial\)$|^cmp\(.*NotificationFile::serial\(notify\).*state\.serial.*\)$')
        o = p.outcome
        if sess is not None and 'Equal' not in sess:
            seen.add('new-session')
            ctx.check('NewSession' in o, 'K4', 'calc_deltas:session-differs=>NewSession', 'new session -> snapshot', 'session differs -> %s' % o)
            continue
        if p.kind == 'return' and re.match(r'^Result::Ok\((array\(\)|const\(.*\[\s*\].*\)|call:.*::default\(?\)?)\)$', o):
            # the "nothing to do" return: Ok(&[])
            seen.add('up-to-date')
            ctx.check(ser == {'Equal'}, 'K4', 'calc_deltas:nothing-to-do<=serial-equal',
                      'the empty delta list (already up to date) is returned only for an EQUAL serial',
                      'calc_deltas reports "nothing to do" for serial relation %s (notified vs local): a notified serial below the '
                      'local one in the same session (server roll-back) must not be treated as up to date - delta_update would '
                      'record the lower serial as a successful update over divergent content' % (sorted(ser) if ser else None),
                      loc=p.ret_site.loc() if p.ret_site else None)
            continue
        if 'BadDeltaSet' in o:
            seen.add('bad-delta-set')
        if 'OutdatedLocal' in o:
            seen.add('outdated-local')
            # the most recent comparison of a delta's serial with local+1 on this path says "greater"
            c = None
            for v_, labs_, _bb in p.conds:
                v0 = v_
                if 'DeltaInfo::serial' in v0 and 'checked_add(state.serial,const(1))' in v0 and (v0.startswith('cmp(') or re.search(r'^call:Ord[^(]*::cmp\(', v0)):
                    first_is_delta = v0.index('DeltaInfo::serial') < v0.index('checked_add(state.serial')
                    c = set(labs_) if first_is_delta else set({'Less': 'Greater', 'Greater': 'Less', 'Equal': 'Equal'}.get(x, x) for x in labs_)
            ctx.check(c == {'Greater'}, 'K4', 'calc_deltas:first>local+1=>OutdatedLocal', 'first delta too new -> snapshot', 'OutdatedLocal under %s' % (c,))
        if 'TooManyDeltas' in o:
            seen.add('too-many')
        if 'LargeSerial' in o:
            seen.add('large-serial')
    need = {'new-session', 'up-to-date', 'bad-delta-set', 'outdated-local'}
    ctx.check(need <= seen, 'K4', 'calc_deltas:rows', 'rows present: %s' % sorted(seen), 'rows missing: %s' % sorted(need - seen))
    # start serial = local + 1
    ok = any('checked_add(state.serial,const(1))' in describe(b.origin_of_operand(a)) for s in b.calls('re:Ord.*::cmp$') for a in s.term['args']) or \
        any('checked_add(state.serial,const(1))' in v and 'DeltaInfo::serial' in v for p in paths for v in p.cond_map()) or \
        any('checked_add(state.serial,const(1))' in (pp.outcome or '') + ' '.join(pp.cond_map()) and 'DeltaInfo::serial' in (pp.outcome or '') + ' '.join(pp.cond_map())
            for c in ctx.closures(b) for pp in enumerate_paths(c, ctx.facts))
    ctx.check(ok, 'K4', 'calc_deltas:start=local+1', 'the first delta applied is local serial + 1', 'start serial is not state.serial + 1')
    # contiguity
    contig = False
    where = None
    fr = ctx.body('collector::rrdp::update::Notification::from_response')
    e, sw = G('deltas contiguous', call='re:NotificationFile::sort_and_verify_deltas$', labels={'true'}).edges(fr)
    if sw:
        lits = agg_sites(fr, 'collector::rrdp::update::Notification')
        if lits and all(fr.path_avoiding(l.bb, avoid_edges=e) is None for l in lits):
            contig, where = True, 'Notification::from_response (sort_and_verify_deltas)'
    if not contig:
        for c in ctx.closures(b):
            for pth in enumerate_paths(c, ctx.facts):
                if re.search(r'checked_add\(call:DeltaInfo::serial\(.*\),const\(1\)\)', pth.outcome) and pth.outcome.count('DeltaInfo::serial') >= 2:
                    # result must guard the Ok return
                    anys = b.calls(['Iterator::any', 'Iterator::all'])
                    for a in anys:
                        lab_ = {'false'} if a.callee.endswith('::any') else {'true'}
                        ee, ssw = G('contiguous', call=a.callee, labels=lab_).edges(b)
                        oks = [site for site, st in b.stmts() if st['s'] == 'assign' and st['lhs'] == [0] and st['rv']['r'] == 'agg' and st['rv'].get('variant') == 'Ok'
                               and b.can_reach(a.bb, site.bb)]
                        if ssw and oks and all(b.path_avoiding(o_.bb, avoid_edges=ee, start=a.bb) is None for o_ in oks):
                            contig, where = True, 'calc_deltas (consecutive-serial check on the selected deltas)'
    if not contig:
        # an explicit loop over `deltas.windows(2)`: a pair that is not (s, s+1) ends in BadDeltaSet, and the delta list is
        # only returned after that loop ran to its end
        pair_rx = re.compile(r'checked_add\(call:DeltaInfo::serial\(.*\),const\(1\)\).*DeltaInfo::serial|DeltaInfo::serial.*checked_add\(call:DeltaInfo::serial\(.*\),const\(1\)\)')
        rejects = loops_done = 0
        ok_all = True
        for p in paths:
            if p.kind != 'return':
                continue
            cm = p.cond_map()
            o = p.outcome or ''
            pc = [(v, set(l)) for v, l in cm.items() if pair_rx.search(v)]
            differs = [1 for v, l in pc if (v.startswith('cmp(') and 'Equal' not in l) or (not v.startswith('cmp(') and l in ({'true'}, {'false'}) and
                                                                                       ((('::ne(' in v) and l == {'true'}) or (('::eq(' in v) and l == {'false'})))]
            if differs:
                rejects += 1
                ok_all = ok_all and 'BadDeltaSet' in o
            if o.startswith('Result::Ok(') and not re.match(r'^Result::Ok\((array\(\)|const\()', o):
                done = any(re.search(r'::next\(.*[Ww]indows', v) and set(l) == {'None'} for v, l in cm.items())
                loops_done += done
                ok_all = ok_all and done
        if rejects and loops_done and ok_all:
            contig, where = True, 'calc_deltas (loop over consecutive pairs)'
    ctx.check(contig, 'K4', 'delta-list-contiguity-verified',
              'the delta list is verified to be consecutive before it is applied (%s)' % where,
              'nothing between parsing the notification and applying deltas verifies that the serials are consecutive (only '
              'sort_deltas is used): a gapped list [s+1, s+3] is applied and the repository reported as updated to s+3 without '
              'the changes of s+2', loc=b.file + ':%d' % b.line)


def rule_update(ctx):
    b = ctx.body('collector::rrdp::base::RepositoryUpdate::update')
    n = 0
    for p in enumerate_paths(b, ctx.facts):
        if p.kind != 'return':
            continue
        o = p.outcome
        cm = p.cond_map()
        if o == 'Result::Ok(const(1))':
            n += 1
            via_delta = any(re.match(r'^call:RepositoryUpdate::delta_update(\(.*\))?@Continue\.0$', v) and labs == {'None'} for v, labs in cm.items())
            nm = bool(p.called('collector::rrdp::base::RepositoryUpdate::not_modified'))
            cur = [labs for v, labs in cm.items() if v in ('current', 'var:current') or re.match(r'^call:Option::is_(none|some)\(current\)$', v)]
            if nm:
                has_copy = any((labs == {'Some'}) or (labs == {'false'}) for labs in cur) if cur else False
                # is_none(current)==false or current==Some
                ok = False
                for v, labs in cm.items():
                    if re.match(r'^call:Option::is_none\(current\)$', v) and labs == {'false'}:
                        ok = True
                    if re.match(r'^call:Option::is_some\(current\)$', v) and labs == {'true'}:
                        ok = True
                    if v in ('current', 'var:current') and labs == {'Some'}:
                        ok = True
                ctx.check(ok, 'K1', 'update:not-modified=>copy-exists',
                          'a Not Modified response counts as an up-to-date repository only when a local copy exists',
                          'RepositoryUpdate::update returns Ok(true) for a 304 Not Modified response although there may be no local '
                          'copy (no conditional request was made): the repository is reported as updated, reading its archive fails '
                          'with "file not found" and the whole validation run fails', loc=p.ret_site.loc() if p.ret_site else None)
            else:
                ctx.check(via_delta, 'K1', 'update:Ok(true)<=delta-complete', 'Ok(true) after a completed delta update', 'Ok(true) under %s' % {k: sorted(v) for k, v in cm.items()})
        elif o.startswith('call:RepositoryUpdate::snapshot_update'):
            n += 1
    ctx.floor('K1', 'success paths of RepositoryUpdate::update', n, 3)
    su = ctx.body('collector::rrdp::base::RepositoryUpdate::snapshot_update')
    oks = [site for site, st in su.stmts() if st['s'] == 'assign' and st['lhs'] == [0] and st['rv']['r'] == 'agg' and st['rv'].get('variant') == 'Ok'
           and describe(su.origin_of_operand(st['rv']['ops'][0])) == 'const(1)']
    e, sw = G('Ok(SnapshotUpdate::try_update)', call='collector::rrdp::update::SnapshotUpdate::try_update', labels=OKL).edges(su)
    e2, sw2 = G('Ok(rename)', call='std::fs::rename', labels=OKL).edges(su)
    for s in oks:
        ctx.check(bool(sw) and su.path_avoiding(s.bb, avoid_edges=e) is None and bool(sw2) and su.path_avoiding(s.bb, avoid_edges=e2) is None, 'K1',
                  'snapshot_update:Ok(true)<=try_update&rename', 'snapshot success only after try_update and rename succeeded', 'snapshot_update Ok(true) not guarded', loc=s.loc())
    ctx.floor('K1', 'Ok(true) in snapshot_update', len(oks), 1)


def rule_check_deltas(ctx):
    """Every delta of the notification that the client has already recorded is compared; a changed hash forces a snapshot."""
    b = ctx.body('collector::rrdp::update::Notification::check_deltas')
    # the loop runs over ALL deltas: into_iter(deltas(content)) with no adaptor in between
    nxt = [s for s in b.calls('re:Iterator>?::next$')]
    anys = [s for s in b.calls('re:Iterator>?::any$')] if not nxt else []
    ctx.floor('K4', 'loop over the notified deltas', len(nxt) + len(anys), 1)
    if anys:
        # `deltas().iter().any(|delta| state.delta_state.get(&delta.serial()).is_some_and(|known| *known != delta.hash()))`
        for s in anys:
            o = b.origin_of_operand(s.term['args'][0])
            cs = [norm(c.callee) for c in o.calls()]
            adapt = [c for c in cs if re.search(r'::(skip_while|skip|filter|take|take_while|step_by|filter_map|rev|chain)$', c)]
            src = [c for c in cs if c.endswith('NotificationFile::deltas')]
            ctx.check(bool(src) and not adapt, 'K4', 'check_deltas:iterates-all-notified-deltas',
                      'check_deltas looks at every delta of the notification file',
                      'check_deltas iterates over %s: deltas the client has already applied are no longer compared with the recorded '
                      'hashes' % (adapt or cs), loc=s.loc())
        cl = ctx.closures(b)
        texts = []
        for c in cl:
            ctx.bodies.add(c.nid)
            for pth in enumerate_paths(c, ctx.facts):
                texts.append((c.nid, pth.outcome or '', dict(pth.cond_map())))
        looks_up = any(cc.calls('re:HashMap.*::get$') and any('delta_state' in arg_desc(g, 0) and 'serial' in arg_desc(g, 1)
                                                                 for g in cc.calls('re:HashMap.*::get$')) for cc in cl)
        differs = any(re.search(r'(^|[(:])(Ne|ne)\(', o) and 'hash' in o.lower() for _n, o, _c in texts) or \
            any(o == 'const(1)' and any(v.startswith('cmp(') and 'hash' in v.lower() and 'Equal' not in l for v, l in c.items()) for _n, o, c in texts)
        ctx.check(looks_up and differs, 'K4', 'check_deltas:predicate=recorded-and-hash-differs',
                  'the predicate is "recorded for this serial and the hash differs"',
                  'the `any` predicate of check_deltas does not look up the recorded hash of the delta\'s serial and compare it for inequality')
        n = 0
        for p in enumerate_paths(b, ctx.facts):
            if p.kind != 'return':
                continue
            av = [set(l) for v, l in p.cond_map().items() if re.match(r'^call:Iterator>?::any\(', v)]
            if av and av[0] == {'true'}:
                n += 1
                ctx.check('DeltaMutation' in (p.outcome or ''), 'K4', 'check_deltas:hash-differs=>DeltaMutation',
                          'a recorded delta whose hash changed yields Err(DeltaMutation)', 'a mutated delta yields %s' % p.outcome)
            elif av and av[0] == {'false'}:
                ctx.check((p.outcome or '').startswith('Result::Ok'), 'K4', 'check_deltas:no-mutation=>Ok', 'no mutation: Ok', 'no mutation yields %s' % p.outcome)
        ctx.floor('K4', 'mutation rows of check_deltas', n, 1)
        return
    for s in nxt:
        o = b.origin_of_operand(s.term['args'][0])
        cs = [norm(c.callee) for c in o.calls()]
        adapt = [c for c in cs if re.search(r'::(skip_while|skip|filter|take|take_while|step_by|filter_map|rev|chain)$', c)]
        src = [c for c in cs if c.endswith('NotificationFile::deltas')]
        ctx.check(bool(src) and not adapt, 'K4', 'check_deltas:iterates-all-notified-deltas',
                  'check_deltas looks at every delta of the notification file',
                  'check_deltas iterates over %s: deltas the client has already applied are no longer compared with the recorded '
                  'hashes, so a server that rewrites history (delta mutation) is followed instead of forcing a snapshot' % (adapt or cs),
                  loc=s.loc())
    n = 0
    for p in enumerate_paths(b, ctx.facts, max_visits=2):
        cm = p.cond_map()
        got = [labs for v, labs in cm.items() if re.search(r'HashMap.*::get\(', v) and 'delta_state' in v]
        ne = [labs for v, labs in cm.items() if (v.startswith('cmp(') or 'PartialEq' in v) and 'hash' in v.lower()]
        if got and got[0] == {'Some'} and ne and p.kind == 'return':
            differ = ne[0] not in ({'Equal'}, {'false'}) if ne[0] <= {'Equal', 'Less', 'Greater', 'Unordered'} else ne[0] == {'true'}
            if differ:
                n += 1
                ctx.check('DeltaMutation' in (p.outcome or ''), 'K4', 'check_deltas:hash-differs=>DeltaMutation',
                          'a recorded delta whose hash changed yields Err(DeltaMutation)',
                          'a recorded delta whose hash changed yields %s' % p.outcome, loc=p.ret_site.loc() if p.ret_site else None)
    ctx.floor('K4', 'mutation rows of check_deltas', n, 1)


RULES = [rule_check_deltas, rule_hash_gates, rule_calc_deltas, rule_update]
