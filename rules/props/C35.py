"""C35 Printed configuration reads back identically (K8 table agreement: CLI / config-file reader / to_toml printer)."""
import re
from lib.facts import norm, callee_name, Origin, Site
from lib.rules import agg_sites, field_writes
from lib.tables import describe

from lib.tables import strip_suffix, enumerate_paths  # noqa: E402

META = dict(
    level='other',
    explanation=(
        'Three tables are extracted from the MIR of src/config.rs and compared row by row. READER: the Config aggregate '
        'built in Config::from_config_file gives, per field, the ConfigFile::take_* method, the key constant and the '
        'treatment of an absent key (None stays None / default / `0` means None). PRINTER: every insert/insert_int call of '
        'Config::to_toml gives the key constant, the Config field(s) its value is computed from, the TOML value type, and '
        'whether the call is conditional on the field being Some / non-empty. CLI: the stores into Config fields in '
        'apply_arg_matches / apply_server_arg_matches give, per field, the GlobalArgs/ServerArgs member (and so its Rust '
        'type and the clap range in the derived augment_args). Rules: (1) the key sets agree (a key feeding a field is '
        'printed, a printed key is read); (2) a field printed under key k is the field the reader fills from k; (3) every '
        'field is read and printed or is in a three-entry list of non-file fields (each shown constant in the reader); '
        '(4) value types agree (bool/integer/string/array); (5) presence agrees: a key is printed conditionally iff the '
        'reader maps an absent key to None, and where the printer writes 0 for None the reader and the command line both map '
        '0 to None; (6) numeric ranges agree: what the command line accepts for a field is accepted by the reader method '
        'of its key (u16 for take_small_usize, the same limit for take_limited_u8), and integers survive the i64 TOML '
        'representation (insert_int clipping above i64::MAX is recorded as a known finding).'),
    decides='agreement of key, field, type, presence encoding and accepted range between the three option tables',
    undecided='string-level round trips (paths that are not UTF-8, Display/FromStr agreement of policy enums, socket addresses, syslog facilities), relative-path resolution against the config file directory',
    trusted_base=['rustc MIR construction + callee resolution', 'toml_edit round trip of scalars', 'FromStr/Display agreement of std / log / rpki types'],
    rules=['K8 key-set agreement', 'K8 field/key agreement', 'K8 type agreement', 'K8 presence agreement', 'K8 range agreement'],
)

NONFILE = {
    'config_file': 'path of the file itself; not an option',
    'fresh': 'one-shot command line action (--fresh deletes the cache once); documented as command line only',
    'rrdp_user_agent': 'not configurable; constant',
}
TAKE = re.compile(r'config::ConfigFile::(take_\w+)$')
INT_METHODS = {'take_u64', 'take_usize', 'take_small_usize', 'take_limited_u8'}
STR_METHODS = {'take_string', 'take_from_str', 'take_path', 'take_mandatory_path'}
ARR_METHODS = {'take_string_array', 'take_from_str_array', 'take_path_array', 'take_string_map'}


def const_str(o):
    """String constant at an origin (through refs), or None."""
    while o is not None and o.kind in ('ref', 'cast'):
        o = o.base
    if o is not None and o.kind == 'place' and all(p == '*' for p in o.proj):
        return const_str(o.base)
    if o is not None and o.kind == 'const' and isinstance(o.value, str):
        v = o.value
        if v.startswith('"') and v.endswith('"'):
            return v[1:-1]
    return None


def takes_in(o):
    """(method, key, origin) of every ConfigFile::take_* call below origin o."""
    out = []
    for c in o.calls():
        m = TAKE.search(norm(c.callee))
        if m and len(c.args) >= 2:
            k = const_str(c.args[1])
            out.append((m.group(1), k, c))
    return out


def self_fields(o):
    """Config fields (first projection on param self) read below origin o."""
    out = []
    seen = {}

    def walk(x):
        if x is None or id(x) in seen:
            return
        seen[id(x)] = x
        if x.kind == 'place':
            b = x.base
            while b.kind in ('ref', 'cast') or (b.kind == 'place' and all(p == '*' for p in b.proj)):
                b = b.base
            fs = [p for p in x.proj if p.startswith('.')]
            if b.kind == 'param' and b.name == 'self' and fs:
                out.append(fs[0][1:])
                return
        for attr in ('base', 'a', 'b'):
            v = getattr(x, attr, None)
            if isinstance(v, Origin):
                walk(v)
        for v in list(getattr(x, 'args', None) or []) + list(getattr(x, 'alts', None) or []) + list(getattr(x, 'ops', None) or []):
            walk(v)
    walk(o)
    return out


def closure_self_fields(ctx, body, o):
    """Fields read inside closures passed below origin o (closure upvars capture self.<field> by the agg op)."""
    return self_fields(o)


def reader_table(ctx):
    b = ctx.body('config::Config::from_config_file')
    sites = agg_sites(b, 'config::Config')
    if len(sites) != 1:
        ctx.bad('K8', 'anchor:Config-aggregate', 'expected exactly one Config aggregate in from_config_file, found %d' % len(sites))
        return None
    st = sites[0].stmt['rv']
    rows = {}
    for nm, op in zip(st['names'], st['ops']):
        o = b.origin_of_operand(op)
        d = describe(o)
        tk = takes_in(o)
        sub = [c for c in o.calls() if norm(c.callee).endswith('Config::log_target_from_config_file')]
        if sub:
            for lb in ctx.facts.find('config::Config::log_target_from_config_file'):
                ctx.bodies.add(lb.nid)
                for s in lb.calls('re:config::ConfigFile::take_\\w+$'):
                    m = TAKE.search(norm(s.callee))
                    k = const_str(lb.origin_of_operand(s.term['args'][1]))
                    tk.append((m.group(1), k, None))
        # absent-key treatment
        if re.search(r'Option::(unwrap_or|unwrap_or_default|unwrap_or_else|or|or_else)\(', d) or (sub and not tk == []):
            absent = 'default'
        elif d.startswith('phi('):
            absent = 'match'
        elif tk:
            absent = 'none'
        else:
            absent = 'const'
        zero_none = False
        if absent == 'match':
            zero_none = zero_maps_to_none(b, o, ctx.facts)
            alts = [describe(a) for a in o.alts]
            absent = 'default'      # every match form in this file supplies a default for the absent key
            if not any('DEFAULT' in a or re.search(r'Some\(const\(\d+\)\)', a) for a in alts):
                absent = 'match-no-default'
        rows[nm] = dict(field=nm, takes=tk, desc=d, absent=absent, zero_none=zero_none, origin=o)
    return b, rows


def _zero_verdict(cm, what):
    """Does the path establish `what == 0` ('zero'), `what != 0` ('nonzero'), or neither (None)? `what` is a regex for
    the description of the tested integer."""
    for v, labs in cm.items():
        base = strip_suffix(v)
        labs = {str(x) for x in labs}
        if re.search(what + r'$', base) and labs and labs <= {'0', 'other'} | {str(i) for i in range(1, 10)}:
            return 'zero' if labs == {'0'} else 'nonzero'
        m = re.match(r'^cmp\((.*),const\(0\)\)$', base) or re.match(r'^cmp\(const\(0\),(.*)\)$', base)
        if m and re.search(what + r'$', m.group(1)):
            return 'zero' if labs == {'Equal'} else ('nonzero' if 'Equal' not in labs else None)
    return None


def helper_zero_to_none(facts, nm):
    """A small function `fn f(v: u64) -> Option<u64>`: returns None exactly for v == 0 and Some(v) otherwise."""
    hbs = facts.find(nm)
    if len(hbs) != 1 or len(hbs[0].blocks) > 60:
        return False
    hb = hbs[0]
    args = [d['name'] for d in hb.rec.get('debug', []) if d.get('arg')]
    seen = set()
    for p in enumerate_paths(hb, facts):
        if p.kind != 'return':
            return False
        z = None
        for a in args:
            z = z or _zero_verdict(p.cond_map(), re.escape(a))
        o = p.outcome or ''
        if z == 'zero' and o == 'Option::None()':
            seen.add('zero')
        elif z == 'nonzero' and o.startswith('Option::Some('):
            seen.add('nonzero')
        else:
            return False
    return seen == {'zero', 'nonzero'}


def zero_maps_to_none(b, o, facts=None):
    """o is the value of a `match take_u64(k)? { Some(0) => None, Some(v) => Some(..), None => default }` (in whatever
    shape: nested ifs, `== 0`, a helper `fn limit(v) -> Option<u64>`): on every path from the take call to the next key,
    a taken 0 yields None for the field and a taken non-zero value yields Some(..)."""
    tks = takes_in(o)
    if not tks or o.kind != 'multi':
        return False
    facts = facts or _FACTS[0]
    for meth, key, c in tks:
        if c is None or not key:
            continue
        site = c.site
        nxt = site.term.get('to')
        if nxt is None:
            continue
        seen = set()
        ok = True
        for p in enumerate_paths(b, facts, start=nxt, stop_calls=['re:config::ConfigFile::take_\\w+$'], max_paths=2000):
            val = p.local_value(o.local)
            if val is None:
                continue        # the `?` exit, or a path that does not assign the field value
            cm = p.cond_map()
            taken = r'const\("%s"\)\)(@Continue\.0)?@Some\.0' % re.escape(key)
            z = _zero_verdict(cm, taken)
            if z is None:
                # presence not established or absent key: no claim
                continue
            if z == 'zero':
                seen.add('zero')
                ok = ok and val == 'Option::None()'
            else:
                hm = re.match(r'^call:((?:\w+::)*\w+)\(.*%s\)$' % taken, val)
                if hm and helper_zero_to_none(facts, hm.group(1)):
                    seen |= {'zero', 'nonzero'}
                    continue
                seen.add('nonzero')
                ok = ok and val.startswith('Option::Some(')
        if ok and seen == {'zero', 'nonzero'}:
            return True
        # value computed by a helper for every taken value: `Some(v) => limit(v)`
        for p in enumerate_paths(b, facts, start=nxt, stop_calls=['re:config::ConfigFile::take_\\w+$'], max_paths=2000):
            val = p.local_value(o.local) or ''
            hm = re.match(r'^call:((?:\w+::)*\w+)\(.*@Some\.0\)$', val)
            if hm and ('const("%s")' % key) in val and helper_zero_to_none(facts, hm.group(1)):
                return True
    return False


_FACTS = [None]


def assigns_none(b, tb, local):
    for _ in range(6):
        blk = b.blocks[tb]
        for st in blk['stmts']:
            if st['s'] == 'assign' and st['lhs'] == [local]:
                return st['rv']['r'] == 'agg' and st['rv'].get('variant') == 'None'
        t = blk['term']
        if t['t'] == 'goto':
            tb = t['to'] if 'to' in t else t.get('target')
            continue
        return False
    return False


def printer_table(ctx):
    b = ctx.body('config::Config::to_toml')
    rows = []
    rets = b.returns()
    for s in b.calls(None):
        cn = norm(s.callee)
        if not re.search(r'to_toml::insert(_int)?$', cn):
            continue
        args = s.term['args']
        key = const_str(b.origin_of_operand(args[1]))
        vo = b.origin_of_operand(args[2])
        vd = describe(vo)
        fields = sorted(set(self_fields(vo)))
        targs = s.term['fn'].get('targs') or ['?']
        # conditional?  the call does not dominate the return
        uncond = all(b.path_avoiding(r.bb, avoid_nodes={s.bb}) is None for r in rets)
        # guard fields: switches that decide whether the call is reached
        guards = []
        if not uncond:
            for sbb in b.switches():
                so, edges = b.switch_edges(sbb)
                if so is None:
                    continue
                tgt_reach = [tb for tb in edges if s.bb in b.reachable(tb)]
                if tgt_reach and len(tgt_reach) < len(edges) and b.site_dominates(Site(b, sbb), s):
                    guards.append((describe(so), sorted(str(l) for tb in tgt_reach for l in edges[tb])))
        rows.append(dict(key=key, fields=fields, ty=targs[0], int=cn.endswith('insert_int'), uncond=uncond, guards=guards,
                         desc=vd, site=s, zero_for_none=('const(0)' in vd and ('@Some.0' in vd or 'unwrap_or' in vd))))
    return b, rows


def cli_table(ctx):
    """Config field -> list of (args struct, member, type)."""
    out = {}
    adts = {}
    for name, a in ctx.facts.adts.items():
        if name.endswith(('config::GlobalArgs', 'config::ServerArgs')):
            for v in a.get('variants', []):
                for f in v.get('fields', []):
                    adts[(name.split('::')[-1], f['name'])] = f['ty']
    bodies = []
    for pat in ('config::Config::apply_arg_matches', 'config::Config::apply_server_arg_matches'):
        bodies.append(ctx.body(pat))
    for b in bodies:
        for site, st in b.stmts():
            if st['s'] != 'assign':
                continue
            lhs = st['lhs']
            # (*self).field = ...
            fs = [p for p in lhs[1:] if isinstance(p, str) and p.startswith('.')]
            if not fs:
                continue
            base = b.origin_of_place([lhs[0]])
            bb = base
            while bb is not None and bb.kind in ('ref', 'cast'):
                bb = bb.base
            if bb is None or bb.kind != 'param' or bb.name != 'self':
                continue
            field = fs[0][1:]
            o = b.origin_of_stmt(site)
            struct = 'ServerArgs' if 'server' in b.nid else 'GlobalArgs'
            ms = arg_members(o, struct)
            if not ms:
                # flag options: `if args.flag { self.field = true }` -- the member is in the guarding switch
                for sbb in b.switches():
                    so, edges = b.switch_edges(sbb)
                    if so is None or not b.site_dominates(Site(b, sbb), site):
                        continue
                    reach = [tb for tb in edges if site.bb in b.reachable(tb)]
                    if reach and len(reach) < len(edges):
                        ms += arg_members(so, struct)
            for m in ms:
                ty = adts.get(m)
                out.setdefault(field, []).append(dict(struct=m[0], member=m[1], ty=ty, desc=describe(o), site=site))
    return out, adts


def arg_members(o, struct):
    out = []
    seen = {}

    def walk(x):
        if x is None or id(x) in seen:
            return
        seen[id(x)] = x
        if x.kind == 'place':
            b = x.base
            while b.kind in ('ref', 'cast') or (b.kind == 'place' and all(p == '*' for p in b.proj)):
                b = b.base
            fs = [p for p in x.proj if p.startswith('.')]
            if fs and b.kind == 'call' and norm(b.callee).endswith('::from_arg_matches'):
                out.append((struct, fs[0][1:]))
                return
        for attr in ('base', 'a', 'b'):
            v = getattr(x, attr, None)
            if isinstance(v, Origin):
                walk(v)
        for v in list(getattr(x, 'args', None) or []) + list(getattr(x, 'alts', None) or []) + list(getattr(x, 'ops', None) or []):
            walk(v)
    walk(o)
    return out


def clap_ranges(ctx):
    """arg id -> inclusive upper limit from the derived clap parser."""
    out = {}
    for b in ctx.facts.all_bodies():
        if not re.search(r'config::(GlobalArgs|ServerArgs) as clap::Args>::augment_args$', b.nid):
            continue
        ctx.bodies.add(b.nid)
        for s in b.calls('re:clap::Arg::value_parser$'):
            ro = b.origin_of_operand(s.term['args'][0])
            po = b.origin_of_operand(s.term['args'][1])
            ids = [const_str(c.args[0]) for c in ro.calls() if norm(c.callee).endswith('clap::Arg::new') and c.args]
            m = re.search(r'RangeToInclusive\(const\((\d+)\)\)', describe(po))
            full = describe(po)
            if not m:
                # describe() may elide; search the origin tree
                for c in po.calls():
                    for a in c.args:
                        mm = re.search(r'RangeToInclusive\S*\(const\((\d+)', describe(a))
                        if mm:
                            m = mm
            if ids and ids[0] and m:
                out[ids[0]] = int(m.group(1))
    return out


def rule_tables(ctx):
    rt = reader_table(ctx)
    if rt is None:
        return
    rb, reader = rt
    pb, printer = printer_table(ctx)
    ctx.floor('K8', 'Config fields in the reader aggregate', len(reader), 60)
    ctx.floor('K8', 'insert calls in to_toml', len(printer), 60)

    read_keys = {}
    for f, r in reader.items():
        for m, k, _ in r['takes']:
            read_keys.setdefault(k, []).append((f, m))
    printed_keys = {}
    for p in printer:
        printed_keys.setdefault(p['key'], []).append(p)
    # (1) key sets
    for k in sorted(read_keys):
        ctx.check(k in printed_keys, 'K8', 'key-printed:%s' % k,
                  'key "%s" read into %s is printed by to_toml' % (k, [f for f, _ in read_keys[k]]),
                  'the config file reader fills Config.%s from key "%s" but Config::to_toml never prints that key: a configuration '
                  'with this option set (command line or file) prints a file that reads back with the default instead'
                  % (read_keys[k][0][0], k), loc='%s:%d' % (rb.file, rb.line))
    for k in sorted(printed_keys, key=str):
        ctx.check(k in read_keys, 'K8', 'key-read:%s' % k,
                  'printed key "%s" is read by from_config_file' % k,
                  'Config::to_toml prints key "%s" which Config::from_config_file does not read: check_exhausted rejects the printed '
                  'file (or the value is dropped)' % k, loc=printed_keys[k][0]['site'].loc())
    # (2) field/key agreement
    for p in printer:
        k = p['key']
        rf = set(f for f, _ in read_keys.get(k, []))
        for f in p['fields']:
            ctx.check(f in rf, 'K8', 'field-key:%s:%s' % (k, f),
                      'Config.%s is printed under the key it is read from ("%s")' % (f, k),
                      'Config.%s is printed under key "%s", but the reader fills %s from that key: the value comes back in a '
                      'different option' % (f, k, sorted(rf) or 'nothing'), loc=p['site'].loc())
        if not p['fields'] and not p['desc'].startswith('const('):
            ctx.bad('K8', 'field-key:%s:no-field' % k, 'printed value for "%s" is not computed from a Config field (%s)' % (k, p['desc'][:80]),
                    loc=p['site'].loc())
    # (3) every field is read+printed or in NONFILE
    printed_fields = set(f for p in printer for f in p['fields'])
    for f, r in sorted(reader.items()):
        if f in NONFILE:
            ctx.check(not r['takes'], 'K8', 'nonfile:%s' % f, 'Config.%s is not a config-file option (%s)' % (f, NONFILE[f]),
                      'Config.%s is listed as a non-file field but the reader fills it from %s' % (f, r['takes']))
            continue
        ctx.check(bool(r['takes']), 'K8', 'field-read:%s' % f, 'Config.%s is read from key %s' % (f, [k for _, k, _ in r['takes']]),
                  'Config.%s is not filled from the config file (%s) and is not a listed non-file field' % (f, r['desc'][:60]))
        ctx.check(f in printed_fields, 'K8', 'field-printed:%s' % f, 'Config.%s is printed' % f,
                  'Config.%s (key %s) never reaches the printed file: setting it on the command line is lost when the printed '
                  'configuration is read back' % (f, [k for _, k, _ in r['takes']]), loc='%s:%d' % (pb.file, pb.line))
    # (4) types
    for p in printer:
        for f, m in read_keys.get(p['key'], []):
            ty = p['ty']
            if m == 'take_bool':
                ok = ty == 'bool'
            elif m in INT_METHODS:
                ok = p['int'] or ty in ('i64',)
            elif m in STR_METHODS:
                ok = ty in ('std::string::String', '&str', 'alloc::string::String')
            elif m in ARR_METHODS:
                ok = 'Value' in ty and 'Array' in p['desc']
            else:
                ok = False
            ctx.check(ok, 'K8', 'type:%s' % p['key'], '"%s": reader %s, printed as %s' % (p['key'], m, ty),
                      'key "%s" is read with %s but printed as a %s value: the printed file is rejected or read differently'
                      % (p['key'], m, ty), loc=p['site'].loc())
    # (5) presence
    for p in printer:
        if len(p['fields']) != 1:
            continue
        f = p['fields'][0]
        r = reader.get(f)
        if r is None or f == 'log_target':
            continue
        if p['uncond']:
            ctx.check(r['absent'] in ('default',) or p['zero_for_none'] or (r['takes'] and r['takes'][0][0] == 'take_mandatory_path'),
                      'K8', 'presence:%s' % p['key'],
                      '"%s" is always printed; the reader supplies a default only when it is absent' % p['key'],
                      'key "%s" is printed on every path although the reader maps an absent key to None and to_toml has no encoding '
                      'for None (%s)' % (p['key'], r['absent']), loc=p['site'].loc())
            if p['zero_for_none']:
                ctx.check(r['zero_none'], 'K8', 'zero-is-none:reader:%s' % p['key'],
                          'to_toml prints 0 for a disabled "%s" and the reader maps 0 back to None' % p['key'],
                          'Config::to_toml prints "%s = 0" when Config.%s is None, but Config::from_config_file does not map 0 back '
                          'to None (it yields the default or Some(0)): a configuration with the option disabled reads back enabled'
                          % (p['key'], f), loc='%s:%d' % (rb.file, rb.line))
        else:
            gd = [g for g in p['guards'] if ('self.' + f) in g[0]]
            ctx.check(bool(gd) and r['absent'] in ('none',) or (bool(gd) and 'is_empty' in gd[0][0] and r['absent'] == 'default'), 'K8',
                      'presence:%s' % p['key'],
                      '"%s" is printed only when Config.%s is set, and the reader maps an absent key to the unset value' % (p['key'], f),
                      'key "%s" is printed only on some paths (guards %s) but the reader maps an absent key to %s: an unset value '
                      'reads back as something else' % (p['key'], p['guards'][:2], r['absent']), loc=p['site'].loc())
    ctx.extra['reader_table'] = {f: dict(keys=[(m, k) for m, k, _ in r['takes']], absent=r['absent'], zero_none=r['zero_none']) for f, r in reader.items()}
    ctx.extra['printer_table'] = [dict(key=p['key'], fields=p['fields'], ty=p['ty'], int=p['int'], uncond=p['uncond']) for p in printer]
    return reader, printer, read_keys


def rule_cli(ctx):
    rt = reader_table(ctx)
    if rt is None:
        return
    rb, reader = rt
    pb, printer = printer_table(ctx)
    cli, adts = cli_table(ctx)
    ranges = clap_ranges(ctx)
    ctx.floor('K8', 'Config fields set from the command line', len(cli), 50)
    ctx.extra['cli_table'] = {f: [(m['struct'], m['member'], m['ty']) for m in ms] for f, ms in cli.items()}
    ctx.extra['clap_ranges'] = ranges
    pk = {}
    for p in printer:
        for f in p['fields']:
            pk.setdefault(f, []).append(p)
    for f, ms in sorted(cli.items()):
        r = reader.get(f)
        if r is None:
            continue
        if f in NONFILE:
            continue
        # every field settable from the command line is printed
        ctx.check(f in pk, 'K8', 'cli-printed:%s' % f, 'Config.%s (settable on the command line) is printed' % f,
                  'Config.%s can be set on the command line (%s) but is not printed by to_toml' % (f, ms[0]['member']),
                  loc=ms[0]['site'].loc())
        for m, k, c in r['takes']:
            for a in ms:
                ty = a['ty'] or ''
                inner = re.sub(r'^std::option::Option<(.*)>$', r'\1', ty)
                if m == 'take_small_usize':
                    ok = inner in ('u8', 'u16') or (a['member'] in ranges and ranges[a['member']] <= 65535)
                    ctx.check(ok, 'K8', 'range:%s' % k,
                              '--%s accepts only what take_small_usize("%s") accepts (<= 65535)' % (a['member'], k),
                              'the command line accepts any %s for %s.%s, the printed key "%s" is read back with take_small_usize which '
                              'rejects values above 65535: `routinator config` prints a file that routinator refuses'
                              % (inner, a['struct'], a['member'], k), loc=a['site'].loc())
                elif m == 'take_limited_u8':
                    lim = None
                    if c is not None and len(c.args) >= 3:
                        mm = re.search(r'const\((\d+)\)', describe(c.args[2]))
                        lim = int(mm.group(1)) if mm else None
                    cl = ranges.get(a['member'])
                    ctx.check(inner == 'u8' and lim is not None and cl is not None and cl <= lim, 'K8', 'range:%s' % k,
                              '--%s is limited to ..=%s, the reader accepts ..=%s' % (a['member'], cl, lim),
                              'the command line accepts %s up to %s for %s but the reader of key "%s" accepts values up to %s only'
                              % (inner, cl if cl is not None else 'its type maximum', a['member'], k, lim), loc=a['site'].loc())
                elif m == 'take_usize':
                    ctx.check(inner in ('usize', 'u8', 'u16', 'u32', 'u64'), 'K8', 'range:%s' % k, '--%s: %s, reader usize' % (a['member'], inner),
                              'command line type %s of %s is not an unsigned integer read by take_usize' % (inner, a['member']))
                elif m == 'take_u64':
                    ctx.check(inner in ('u64', 'u32', 'u16', 'u8'), 'K8', 'range:%s' % k, '--%s: %s, reader u64' % (a['member'], inner),
                              'command line type %s of %s is not an unsigned integer read by take_u64' % (inner, a['member']))
        # zero means None on the command line as well
        for p in pk.get(f, []):
            if p['zero_for_none']:
                for a in ms:
                    b = a['site'].body
                    z = zero_guard_store(b, f, a['member'])
                    ctx.check(z, 'K8', 'zero-is-none:cli:%s' % p['key'],
                              'the command line maps %s = 0 to None, as the printed 0 is read back' % a['member'],
                              'the command line stores Some(0) into Config.%s for --%s 0 while the printed "0" reads back as None'
                              % (f, a['member']), loc=a['site'].loc())
    # insert_int clipping: values above i64::MAX
    ins = ctx.facts.find('config::Config::to_toml::insert_int')
    if len(ins) == 1:
        b = ins[0]
        ctx.bodies.add(b.nid)
        clip = [s for s in b.calls('re:Result.*::unwrap_or$')]
        wide = sorted(set(p['key'] for p in printer if p['int'] and p['ty'] in ('u64', 'usize')))
        unbounded = []
        for p in printer:
            if p['int'] and p['ty'] in ('u64', 'usize'):
                for f in p['fields']:
                    for a in cli.get(f, []):
                        inner = re.sub(r'^std::option::Option<(.*)>$', r'\1', a['ty'] or '')
                        if inner in ('u64', 'usize') and a['member'] not in ranges:
                            unbounded.append(a['member'])
        if clip and unbounded:
            ctx.bad('K8', 'lossy-int:to_toml::insert_int',
                    'to_toml::insert_int prints integers through try_into::<i64>().unwrap_or(i64::MAX): %d u64/usize options whose command '
                    'line parser accepts the full range (%s, ...) print as 9223372036854775807 for values above i64::MAX and read back as '
                    'a different configuration' % (len(set(unbounded)), ', '.join(sorted(set(unbounded))[:4])), loc=clip[0].loc())
        else:
            ctx.ok('K8', 'lossy-int:to_toml::insert_int', 'integers printed without clipping, or every wide option is range limited')
    else:
        ctx.bad('K8', 'anchor:insert_int', 'to_toml::insert_int not found')


def zero_guard_store(b, field, member):
    """Some store into self.<field> is Option::None and is reached only on the `== 0` edge of a test of args.<member>."""
    for site, st in b.stmts():
        if st['s'] != 'assign':
            continue
        fs = [p for p in st['lhs'][1:] if isinstance(p, str) and p.startswith('.')]
        if not fs or fs[0][1:] != field:
            continue
        d = describe(b.origin_of_stmt(site))
        if 'Option::None' not in d:
            continue
        if 'Option::Some' in d:
            # `if v == 0 { None } else { Some(..) }` as one expression: the phi has both; look for the zero test
            pass
        for sbb in b.switches():
            so, edges = b.switch_edges(sbb)
            if so is None:
                continue
            sd = describe(so)
            if ('.' + member) in sd and 'const(0)' in sd and b.site_dominates(Site(b, sbb), site):
                return True
    return False


def rule_variant_payloads(ctx):
    """Enum-valued options: on the arm of each variant its payload is printed (LogTarget::Default(facility) ...)."""
    pb, printer = printer_table(ctx)
    n = 0
    for name, a in ctx.facts.adts.items():
        if name != 'config::LogTarget' or not a.get('enum'):
            continue
        for v in a.get('variants', []):
            if not v.get('fields'):
                continue
            n += 1
            tag = 'self.log_target@%s.' % v['name']
            rows = [p for p in printer if tag in p['desc']]
            ctx.check(bool(rows), 'K8', 'variant-payload-printed:LogTarget::%s' % v['name'],
                      'the payload of LogTarget::%s is printed (key %s)' % (v['name'], [p['key'] for p in rows]),
                      'Config::to_toml prints nothing derived from the payload of LogTarget::%s (%s): a configuration with that log '
                      'target reads back with the default payload' % (v['name'], [f['ty'] for f in v['fields']]),
                      loc='%s:%d' % (pb.file, pb.line))
    ctx.floor('K8', 'payload-carrying variants of LogTarget', n, 2)


def rule_limited_reader_bound(ctx):
    """take_limited_u8(key, limit) accepts exactly 0..=limit - the inclusive range the command line parser has."""
    from lib.tables import enumerate_paths
    b = ctx.body('config::ConfigFile::take_limited_u8')
    n = 0
    for p in enumerate_paths(b, ctx.facts):
        if p.kind != 'return':
            continue
        rel = [set(labs) for v, labs in p.cond_map().items() if v.startswith('cmp(') and 'limit' in v]
        if not rel:
            continue
        o = p.outcome or ''
        first_value = True
        for v in p.cond_map():
            if v.startswith('cmp(') and 'limit' in v:
                first_value = v.index('limit') > 5
        le = {'Less', 'Equal'} if first_value else {'Greater', 'Equal'}
        if o.startswith('Result::Ok(Option::Some'):
            n += 1
            ctx.check(rel[0] == le, 'K8', 'take_limited_u8:accepts<=limit',
                      'a value is accepted iff value <= limit (relation %s)' % sorted(rel[0]),
                      'take_limited_u8 accepts a value under the relation %s to its limit instead of `<=`: the command line accepts the '
                      'limit itself (..=limit), to_toml prints it, and the printed file is then rejected (or a larger value accepted)'
                      % sorted(rel[0]), loc=p.ret_site.loc() if p.ret_site else None)
    ctx.floor('K8', 'accepting paths of take_limited_u8', n, 1)


RULES = [rule_tables, rule_cli, rule_variant_payloads, rule_limited_reader_bound]
