"""C29 RRDP-to-rsync fallback follows the documented policy table (K4, exhaustive)."""
import itertools
import re
from lib.tables import enumerate_paths, lookup, describe
from lib.facts import norm

META = dict(
    level='proof',
    explanation=(
        'Decision-table extraction (K4): all acyclic CFG paths of collector::base::Run::repository are enumerated with '
        'path-sensitive constant propagation; each path yields the branch conditions (origin of each discriminant with '
        'the set of enum variants / bool values taken; comparisons against field-less enum constants are evaluated over '
        'the variant order) and the shape of the returned value. The finite product notify{present,absent} x '
        'rrdp{enabled,disabled} x LoadResult{Updated,Current,Stale,Unavailable,Err} x FallbackPolicy{never,stale,new} x '
        'rsync{enabled,disabled} (120 rows) is looked up in that relation and compared row by row with the table the '
        'property states; every row must select paths with exactly the stated transport. The same extraction decides '
        'RepositoryUpdate::try_update: updated->Updated, else unexpired copy->Current, else best_before->Stale, else '
        'Unavailable. Exhaustive over the finite configuration space.'),
    decides='the whole property (finite product, exhaustive)',
    undecided='that load_repository/update themselves report the outcome truthfully (C25)',
    trusted_base=['rustc MIR construction + callee resolution', 'derived PartialEq/PartialOrd on field-less enums follow declaration order'],
    rules=['K4 decision table of Run::repository (120 rows)', 'K4 outcome classification in try_update', 'K1 None collectors = disabled transports'],
)

ROLES = [
    ('result', re.compile(r'^call:Run::load_repository\(.*\)@Continue\.0$')),
    ('runok', re.compile(r'^call:Run::load_repository\((?!.*@Continue\.0$).*\)$')),
    ('notify', re.compile(r'^call:CaCert::rpki_notify\([^@]*\)$')),
    ('rrdp', re.compile(r'^self\.rrdp$')),
    ('rsync', re.compile(r'^self\.rsync$')),
    ('policy', re.compile(r'rrdp_fallback$')),
]


def role_of(var):
    for r, rx in ROLES:
        if rx.search(var):
            return r
    return None


def expected(notify, rrdp, result, policy, rsync):
    fallback = 'rsync' if rsync == 'Some' else 'none'
    if notify == 'Some' and rrdp == 'Some':
        if result == 'Err':
            return 'err'
        if result == 'Updated':
            return 'rrdp'
        if result == 'Current':
            return 'none'
        if result == 'Stale':
            return fallback if policy == 'Stale' else 'none'
        if result == 'Unavailable':
            return fallback if policy in ('New', 'Stale') else 'none'
    return fallback


def classify(outcome):
    if 'Repository::rrdp' in outcome:
        return 'rrdp'
    if 'Repository::rsync' in outcome:
        return 'rsync'
    if 'Break' in outcome or 'from_residual' in outcome or 'Result::Err' in outcome:
        return 'err'
    if outcome == 'Result::Ok(Option::None())':
        return 'none'
    return 'unknown:' + outcome


def rule_table(ctx):
    b = ctx.body('collector::base::Run::repository')
    paths = enumerate_paths(b, ctx.facts)
    ctx.floor('K4', 'acyclic paths of Run::repository', len(paths), 8)
    bad_vars = set()
    for p in paths:
        if p.kind != 'return':
            ctx.bad('K4', 'repository:shape', 'path of kind %s in Run::repository: shape not recognised' % p.kind)
        for v in p.cond_map():
            if role_of(v) is None:
                bad_vars.add(v)
    for v in sorted(bad_vars):
        ctx.bad('K4', 'repository:unrecognised-condition:%s' % v,
                'Run::repository branches on `%s`, which is not one of the inputs of the documented policy table' % v)
    # role-keyed view of each path
    keyed = []
    for p in paths:
        cm = {}
        for v, labs in p.cond_map().items():
            r = role_of(v)
            if r:
                cm[r] = (cm[r] & labs) if r in cm else set(labs)
        keyed.append((cm, p))
    rows = 0
    bad_rows = 0
    for notify, rrdp, result, policy, rsync in itertools.product(
            ['Some', 'None'], ['Some', 'None'], ['Updated', 'Current', 'Stale', 'Unavailable', 'Err'],
            ['Never', 'Stale', 'New'], ['Some', 'None']):
        rows += 1
        asg = dict(notify=notify, rrdp=rrdp, policy=policy, rsync=rsync)
        if result == 'Err':
            asg['runok'] = 'fail'
        else:
            asg['runok'] = 'pass'
            asg['result'] = result
        sel = [p for cm, p in keyed if all(asg[r] in labs for r, labs in cm.items() if r in asg)]
        got = sorted(set(classify(p.outcome) for p in sel))
        # `Ok(self.rsync.as_ref().map(|rsync| { rsync.load_module(..); Repository::rsync(rsync) }))`: the rsync tail as one
        # expression - "rsync if configured, else nothing" - after the closure has been checked to do exactly that
        mm = [re.match(r'^unknown:Result::Ok\(call:Option::map\(self\.rsync,.*\{closure#(\d+)\}.*\)\)$', g) for g in got]
        if got and all(mm):
            good = True
            for m_ in mm:
                cls = [c for c in ctx.closures(b) if c.nid.endswith('{closure#%s}' % m_.group(1))]
                good = good and len(cls) == 1 and bool(cls[0].calls('collector::rsync::Run::load_module')) and \
                    all('Repository::rsync' in (cp.outcome or '') for cp in enumerate_paths(cls[0], ctx.facts))
            if good:
                got = ['rsync' if rsync == 'Some' else 'none']
                rsync_in_closure = True
        exp = expected(notify, rrdp, result, policy, rsync)
        ok = got == [exp]
        key = 'row:notify=%s,rrdp=%s,result=%s,policy=%s,rsync=%s' % (notify, rrdp, result, policy, rsync)
        if ok:
            # the transport returned has been loaded on that path
            for p in sel:
                if exp == 'rsync' and not p.called('collector::rsync::Run::load_module') and not (mm and all(mm)):
                    ok = False
                    got = ['rsync-without-load_module']
                if exp == 'rrdp' and not p.called('collector::rrdp::base::Run::load_repository'):
                    ok = False
        if not ok:
            bad_rows += 1
        ctx.check(ok, 'K4', key, 'expected %s, code yields %s' % (exp, got),
                  'policy table row violated: for notify=%s rrdp=%s LoadResult=%s fallback-policy=%s rsync=%s the statement '
                  'requires `%s` but the code paths yield %s' % (notify, rrdp, result, policy, rsync, exp, got),
                  loc=(sel[0].ret_site.loc() if sel and sel[0].ret_site else b.file))
        if rows % 17 == 0:
            ctx.sample(dict(row=key, expected=exp, got=got))
    ctx.extra['rows'] = rows
    ctx.extra['exhaustive'] = True
    ctx.extra['paths'] = [dict(outcome=p.outcome, conds={k: sorted(v) for k, v in p.cond_map().items()}) for p in paths]


def rule_try_update(ctx):
    # `match (is_updated, is_current, best_before) {..}`: a test of `(a, b, c).0` is a test of `a`
    from lib import tables as _t
    old = _t.OPTS['tuple_proj']
    _t.OPTS['tuple_proj'] = True
    try:
        _try_update(ctx)
    finally:
        _t.OPTS['tuple_proj'] = old


def _try_update(ctx):
    b = ctx.body('collector::rrdp::base::RepositoryUpdate::try_update')
    paths = enumerate_paths(b, ctx.facts)
    n = 0
    rel = []
    for p in paths:
        if p.kind != 'return':
            ctx.bad('K4', 'try_update:shape', 'path of kind %s in try_update: shape not recognised' % p.kind)
            continue
        if not p.called('RepositoryUpdate::update'):
            continue
        cm = p.cond_map()

        def val(rx):
            for v, labs in cm.items():
                if re.search(rx, v) and len(labs) == 1:
                    return list(labs)[0]
            return None
        if val(r'^call:RepositoryUpdate::update\(.*\)$') != 'pass':
            continue
        n += 1
        lr = set()
        for bb in p.blocks:
            for st in b.blocks[bb]['stmts']:
                if st['s'] == 'assign' and st['rv']['r'] == 'agg' and norm(st['rv'].get('adt') or '').endswith('LoadResult'):
                    lr.add(st['rv']['variant'])
        updated = val(r'^call:RepositoryUpdate::update\(.*\)@Continue\.0$')
        has_copy = val(r'^call:RrdpArchive::try_open\(.*\)$') == 'Ok' and val(r'^call:RrdpArchive::try_open\(.*\)@Ok\.0$') == 'Some'
        expired = val(r'^call:RepositoryState::is_expired')
        bbf = val(r'^call:Option::and_then')
        # `current.as_ref().is_some_and(|(_, state)| !state.is_expired())`: "there is a copy and it has not expired" as one bool
        isa = None
        for v, labs in cm.items():
            mi = re.match(r'^call:Option::is_some_and\(.*\{closure#(\d+)\}.*\)$', v)
            if mi and len(labs) == 1:
                outs = [cp.outcome or '' for c in ctx.closures(b) if c.nid.endswith('{closure#%s}' % mi.group(1)) for cp in enumerate_paths(c, ctx.facts)]
                if outs and all(re.match(r'^Not\(call:RepositoryState::is_expired\(', o) for o in outs):
                    isa = list(labs)[0]
        if expired is None and isa is not None:
            if isa == 'true':
                has_copy, expired = True, 'false'
            elif has_copy:
                expired = 'true'
        if bbf is None:
            bbf = val(r'^call:RepositoryState::best_before\(')
        if updated == 'true':
            exp = {'Updated'}
        elif updated == 'false' and has_copy and expired == 'false':
            exp = {'Current'}
        elif updated == 'false' and has_copy and expired == 'true' and bbf == 'Some':
            exp = {'Stale'}
        elif updated == 'false' and has_copy and expired == 'true' and bbf == 'None':
            exp = {'Unavailable'}     # expiry time not representable: treated as no usable copy
        elif updated == 'false' and not has_copy:
            exp = {'Unavailable'}
        else:
            exp = {'?unrecognised'}
        key = 'try_update:updated=%s,copy=%s,expired=%s,best_before=%s' % (updated, has_copy, expired, bbf)
        rel.append(dict(updated=updated, local_copy=has_copy, expired=expired, best_before=bbf, result=sorted(lr)))
        ctx.check(lr == exp, 'K4', key, 'classified as %s' % sorted(lr),
                  'try_update classifies (update succeeded=%s, local copy=%s, expired=%s, best_before=%s) as %s; the '
                  'outcome classification the fallback table relies on requires %s'
                  % (updated, has_copy, expired, bbf, sorted(lr), sorted(exp)),
                  loc=p.ret_site.loc() if p.ret_site else b.file)
    ctx.floor('K4', 'classification paths in try_update', n, 8)
    ctx.extra['try_update_relation'] = rel


def rule_disabled(ctx):
    for bpat, fld in [('collector::rrdp::base::Collector::new', 'disable_rrdp'), ('collector::rsync::Collector::new', 'disable_rsync')]:
        b = ctx.body(bpat)
        paths = enumerate_paths(b, ctx.facts)
        seen = False
        for p in paths:
            cm = p.cond_map()
            for v, labs in cm.items():
                if v.endswith('.' + fld) and labs == {'true'}:
                    seen = True
                    ctx.check(p.outcome == 'Result::Ok(Option::None())', 'K1', '%s:%s=>None' % (bpat, fld),
                              '%s=true yields no collector' % fld, '%s=true yields %s' % (fld, p.outcome))
        ctx.check(seen, 'K1', '%s:branches-on-%s' % (bpat, fld), '%s branches on config.%s' % (bpat, fld),
                  '%s does not branch on config.%s' % (bpat, fld))



def rule_outcome_remembered(ctx):
    """Every CA that asks for the same rpkiNotify URI in a run gets the same outcome: what load_repository remembers in
    `updated` is the fresh outcome itself, and a later call answers with the same function of the remembered value as the
    first call answered with of the fresh one (LoadResult::read)."""
    b = ctx.body('collector::rrdp::base::Run::load_repository')

    def strip(d):
        prev = None
        while prev != d:
            prev = d
            d = re.sub(r'^call:(?:\w+::)*(?:Clone>?::clone|Deref>?::deref|AsRef>?::as_ref|Option::as_ref)\((.*)\)$', r'\1', d)
        return d
    n_hit = n_miss = 0
    for p in enumerate_paths(b, ctx.facts):
        if p.kind != 'return':
            continue
        cm = p.cond_map()
        hit = any(v.startswith('call:HashMap::get(') and 'updated' in v and set(l) == {'Some'} for v, l in cm.items())
        ins = [p.event_args.get(s.bb) for s in p.events if s.callee.endswith('HashMap::insert') and 'updated' in ((p.event_args.get(s.bb) or [''])[0] or '')]
        o = p.outcome or ''
        if hit:
            n_hit += 1
            m = re.match(r'^(?:Result::Ok\()?call:((?:\w+::)*\w+)\((.*)\)(?:@(?:Continue|Ok)\.0\))?$', o)
            ok = bool(m) and m.group(1).endswith('LoadResult::read') and re.match(r'^call:HashMap::get\(.*updated.*\)@Some\.0$', strip(m.group(2)) or '')
            ctx.check(bool(ok), 'K4', 'load_repository:remembered-outcome-returned', 'a later call returns read() of the remembered outcome',
                      'for a repository already tried in this run load_repository returns `%s` instead of LoadResult::read of the remembered '
                      'outcome: CAs sharing the repository get different outcomes (and different fallback decisions)' % o[:160])
        elif ins:
            n_miss += 1
            stored = strip(ins[0][2] if ins[0] and len(ins[0]) > 2 else '?')
            m = re.match(r'^Result::Ok\(call:((?:\w+::)*\w+)\((.*)\)@(?:Continue|Ok)\.0\)$', o)
            ok = bool(m) and m.group(1).endswith('LoadResult::read') and strip(m.group(2)) == stored
            ctx.check(bool(ok), 'K4', 'load_repository:fresh-outcome-remembered', 'the remembered value is the outcome whose read() is returned',
                      'load_repository returns `%s` but remembers `%s` for later calls in this run: the outcome (Updated / Current / Stale / '
                      'Unavailable) later CAs see differs from what the first CA saw' % (o[:120], stored[:120]))
        elif o.startswith('Result::Ok('):
            ctx.bad('K4', 'load_repository:outcome-not-remembered', 'load_repository returns `%s` without recording the outcome in `updated`' % o[:120])
    ctx.floor('K4', 'memo-hit paths of load_repository', n_hit, 1)
    ctx.floor('K4', 'memo-miss paths of load_repository', n_miss, 2)

RULES = [rule_table, rule_try_update, rule_disabled, rule_outcome_remembered]
