"""C32 Failed runs are retried at most once (K9 bounded retry)."""
from lib.facts import path_matches
from lib.rules import k9_bounded_retry, loops_containing

META = dict(
    level='other',
    explanation=(
        'Loop-shape rule (K9): for every call site of the validation run (payload::validation::ValidationReport::process, '
        'found transitively through the crate call graph up to the command entry points) that lies inside a loop, '
        'every CFG path from the Err arm of the run result back to the loop head must pass an edge guarded by a '
        'one-shot flag (a bool local only ever assigned one constant inside the loop, tested on its initial value, '
        'and flipped before the back edge). Run call sites outside any loop retry zero times. This bounds the '
        'number of retries for every sequence of run outcomes.'),
    decides='boundedness of retries (at most one per one-shot flag) for every command, for all failure sequences',
    undecided='exit status values; should_retry classification itself',
    trusted_base=['rustc MIR construction + callee resolution', 'natural-loop computation over MIR CFG'],
    rules=['K9 one-shot guarded back edges', 'call-graph closure of run call sites', 'K9 no recursion among the bodies that start a run'],
)

RUN = ['payload::validation::ValidationReport::process', 'rta::ValidationReport::process']


def rule(ctx):
    facts = ctx.facts
    # transitive closure of "contains a run call"
    work = [(s, 0) for p in RUN for s in facts.callers(p)]
    ctx.floor('K9', 'direct call sites of ValidationReport::process', len(work), 2)
    seen_bodies = set()
    n_loop = 0
    n_straight = 0
    while work:
        site, depth = work.pop()
        b = site.body
        ctx.bodies.add(b.nid)
        ctx.call_sites += 1
        loops = loops_containing(b, site.bb)
        if loops:
            n_loop += 1
            k9_bounded_retry(ctx, b, site)
            ctx.sample(dict(run_call=site.callee, in_body=b.nid, at=site.loc(), loops=len(loops)))
        else:
            n_straight += 1
            ctx.ok('K9', '%s:straight-line@%s' % (b.nid, site.callee.split('::')[-1]),
                   'run call is not inside any loop of %s (zero retries at this level)' % b.nid, loc=site.loc())
        if b.nid in seen_bodies or depth > 6:
            continue
        seen_bodies.add(b.nid)
        # callers of this body (closures are "called" where they are created: use the parent body)
        if '::{closure' in b.nid:
            continue
        for s in facts.callers(b.nid):
            work.append((s, depth + 1))
    ctx.floor('K9', 'run call sites inside loops', n_loop, 1)
    # re-running by recursion: a body on the run path must not (transitively) call itself - nothing bounds the depth
    on_path = set(x.split('::{closure')[0] for x in seen_bodies)
    edges = {}
    for nid in on_path:
        for s in facts.callers(nid):
            src = s.body.nid.split('::{closure')[0]
            if src in on_path:
                edges.setdefault(src, set()).add(nid)
    for start in sorted(on_path):
        stack, seen = list(edges.get(start, ())), set()
        cyc = False
        while stack:
            x = stack.pop()
            if x == start:
                cyc = True
                break
            if x in seen:
                continue
            seen.add(x)
            stack += list(edges.get(x, ()))
        ctx.check(not cyc, 'K9', 'no-recursive-rerun:%s' % start, '%s does not re-enter itself' % start,
                  '%s, which (transitively) starts a validation run, calls itself again: a run that keeps failing is restarted without '
                  'any bound (no one-shot flag can limit a recursion)' % start)
    ctx.extra['run_sites_in_loops'] = n_loop
    ctx.extra['run_sites_straight_line'] = n_straight


RULES = [rule]
