"""C18 JSON delta and snapshot streams are well-formed (K6, template grammar, comma protocol)."""
import json
import re
from lib.facts import norm, Site
from lib.fmtctx import placeholders, inert_reason
from lib.tables import enumerate_paths, describe
from lib.rules import arg_desc, field_writes, arg_path, user_local_of

META = dict(
    level='other',
    explanation=(
        'Three static clauses. (1) K6: every value interpolated inside quotes by DeltaStream::append_header/append_payload '
        'and SnapshotStream::append_header has an inert type (numbers, Asn, IpAddr, KeyIdentifier, RouterKeyInfo, Serial) or '
        'is produced by format_iso_date. (2) Template grammar: the literal templates of header, each payload arm, separator '
        'and footer are read from the source; with every hole replaced by a sample of its type they are assembled in the '
        'order the comma protocol prescribes (0..2 items per list, every payload type) and each assembly must be one valid '
        'JSON document with the announced/withdrawn arrays of the right length - this is a check of the literals, not an '
        'execution of the code. (3) Comma protocol (K4/K5): append_payload emits "," iff !first; in DeltaStream the flag is '
        'PERSISTENT stream state (a field of self) because a chunk may end between the separator and the first withdrawal: '
        'the flag handed to append_payload in next_announce/next_withdraw is self.first, it is set false after every item '
        'and set true when the separator is written; SnapshotStream (single list) derives the flag from header.is_some() '
        'and clears it after each item; footer/separator are written exactly when the respective iterator is exhausted.'),
    decides='well-formedness of every assembly of the templates and the chunk-boundary-safe comma protocol',
    undecided='that the item multiset equals the delta/snapshot for all sizes (iterator semantics of rpki arc_iter)',
    trusted_base=['rustc MIR construction + callee resolution', 'Display of the inert types'],
    rules=['K6 inert interpolation', 'template grammar assembly', 'K4 comma protocol with persistent flag', 'K2 sections closed where the iterator is retired', 'K2 a pulled item is written before the next pull / return', 'initial state of both streams'],
)

SAMPLES = [
    (r'Asn', 'AS64496'), (r'IpAddr', '192.0.2.0'), (r'KeyIdentifier', '00ff'), (r'RouterKeyInfo', 'AAEC'),
    (r'^u8$', '24'), (r'^u(16|32|64)$', '7'), (r'^i64$', '1700000000'), (r'Serial', '3'), (r'Display', '2024-01-01T00:00:00Z'),
]


def sample_for(ty):
    for rx, v in SAMPLES:
        if re.search(rx, ty):
            return v
    return 'x'


def filled_templates(ctx, body):
    """{(line): filled text} for each distinct literal template in body, holes replaced by samples."""
    by_tpl = {}
    for ph in placeholders(body, ctx.repo):
        if not ph.found:
            continue
        by_tpl.setdefault((ph.marked), []).append(ph)
    out = []
    for tpl, phs in by_tpl.items():
        phs.sort(key=lambda p: (p.line, p.site.term['span']['col']))
        # replace holes left to right
        text = tpl
        res = ''
        i = 0
        k = 0
        while i < len(text):
            if text[i] == '{':
                j = text.index('}', i)
                res += sample_for(phs[k].ty) if k < len(phs) else 'x'
                k += 1
                i = j + 1
            else:
                res += text[i]
                i += 1
        out.append((min(p.line for p in phs), res.replace('\x01', '{').replace('\x02', '}'), tpl.replace('\x01', '{').replace('\x02', '}')))
    return sorted(out)


def rule_k6(ctx):
    n = 0
    for bpat in ['http::delta::DeltaStream::append_header', 'http::delta::DeltaStream::append_payload',
                 'http::delta::SnapshotStream::append_header']:
        b = ctx.body(bpat)
        for ph in placeholders(b, ctx.repo):
            if not ph.found:
                ctx.bad('K6', '%s:placeholder-unresolved' % bpat, 'cannot locate template (%s)' % ph.why, loc=ph.loc())
                continue
            if ph.quoted:
                n += 1
                d = describe(ph.origin)
                ok = inert_reason(ph.ty) is not None or 'format_iso_date' in d
                ctx.check(ok, 'K6', '%s:quoted:%s' % (bpat.split('::')[-1], ph.ty[:30]), 'inert value in quotes (%s)' % ph.ty[:40],
                          'value of type %s in quotes without escaping in %s' % (ph.ty, bpat), loc=ph.loc())
    ctx.floor('K6', 'quoted placeholders in the stream writers', n, 9)


def literal_templates(ctx, body):
    """All string/byte literals passed to write!/extend_from_slice in body (decoded)."""
    out = []
    for ph in placeholders(body, ctx.repo):
        pass
    return out


def rule_grammar(ctx):
    dh = ctx.body('http::delta::DeltaStream::append_header')
    sh = ctx.body('http::delta::SnapshotStream::append_header')
    ap = ctx.body('http::delta::DeltaStream::append_payload')
    t_dh = filled_templates(ctx, dh)
    t_sh = filled_templates(ctx, sh)
    t_ap = filled_templates(ctx, ap)
    ctx.check(len(t_dh) == 1 and len(t_sh) == 1, 'gram', 'headers:one-template-each', 'one header template each', 'header templates: %d/%d' % (len(t_dh), len(t_sh)))
    if len(t_dh) != 1 or len(t_sh) != 1:
        return
    # separator / footer / aspa tail are hole-free literals: read them from the source through the const operands
    def consts(body):
        vals = []
        for site, s in body.stmts():
            if s['s'] == 'assign' and s['rv']['r'] == 'use' and 'k' in s['rv']['o']:
                v = s['rv']['o']['k'].get('v')
                if isinstance(v, str) and (v.startswith('"') or v.startswith('b"')):
                    vals.append(v)
        return vals
    from lib.fmtctx import _src, _literals, _decode
    def hole_free_literals(body):
        data = _src(ctx.repo, body.file)
        lo = body.rec['span']['blo']
        hi = body.rec['span']['bhi']
        return [_decode(data[clo:chi], raw) for (l, h, raw, clo, chi) in _literals(data, lo, hi)]
    sep = [x for x in hole_free_literals(ctx.body('http::delta::DeltaStream::append_separator')) if 'withdrawn' in x]
    foot = [x for x in hole_free_literals(ctx.body('http::delta::DeltaStream::append_footer')) if ']' in x]
    ctx.check(len(sep) == 1 and len(foot) == 1, 'gram', 'separator/footer literals', 'found', 'separator %s footer %s' % (sep, foot))
    if len(sep) != 1 or len(foot) != 1:
        return
    # payload arms: origin, router key: one template each; aspa: head, first provider, next provider, tail
    ap_lits = hole_free_literals(ap)
    arms = {}
    for line, filled, tpl in t_ap:
        if 'routeOrigin' in tpl:
            arms['origin'] = filled
        elif 'routerKey' in tpl:
            arms['key'] = filled
        elif 'aspa' in tpl:
            arms['aspa_head'] = filled
        elif tpl.startswith(','):
            arms['aspa_next'] = filled
        elif tpl.startswith('"'):
            arms['aspa_first'] = filled
    tail = [x for x in ap_lits if x.startswith(']')]
    if 'aspa_next' not in arms and 'aspa_first' in arms:
        # the separator written on its own (`if idx > 0 { vec.extend_from_slice(b", ") }`) before the common item template
        seps = [x for x in ap_lits if re.match(r'^\s*,\s*$', x)]
        if len(seps) == 1:
            arms['aspa_next'] = seps[0] + arms['aspa_first']
    ctx.check(set(arms) == {'origin', 'key', 'aspa_head', 'aspa_first', 'aspa_next'} and len(tail) == 1, 'gram', 'payload-templates',
              'all payload templates found', 'payload templates found: %s tail %s' % (sorted(arms), tail))
    if not (set(arms) == {'origin', 'key', 'aspa_head', 'aspa_first', 'aspa_next'} and len(tail) == 1):
        return
    items = {
        'origin': arms['origin'], 'key': arms['key'],
        'aspa0': arms['aspa_head'] + tail[0],
        'aspa1': arms['aspa_head'] + arms['aspa_first'] + tail[0],
        'aspa3': arms['aspa_head'] + arms['aspa_first'] + arms['aspa_next'] + arms['aspa_next'] + tail[0],
    }
    n = 0

    def lst(kinds):
        return ''.join((',' if i else '') + items[k] for i, k in enumerate(kinds))
    import itertools
    kinds = list(items)
    combos = [[]] + [[k] for k in kinds] + [list(c) for c in itertools.product(kinds, repeat=2)]
    for a in combos:
        for w in combos[:8]:
            doc = t_dh[0][1] + lst(a) + sep[0] + lst(w) + foot[0]
            n += 1
            try:
                j = json.loads(doc)
                ok = isinstance(j, dict) and len(j.get('announced', [])) == len(a) and len(j.get('withdrawn', [])) == len(w) \
                    and j.get('reset') is False and all(isinstance(x, dict) and 'type' in x for x in j['announced'] + j['withdrawn'])
                err = None
            except ValueError as e:
                ok, err = False, str(e)
            if not ok:
                ctx.bad('gram', 'delta-doc:%s|%s' % ('+'.join(a), '+'.join(w)),
                        'the delta document assembled from the source templates (announced %s, withdrawn %s) is not a valid JSON '
                        'document with those lists: %s' % (a, w, err or 'wrong shape'))
    for a in combos:
        doc = t_sh[0][1] + lst(a) + foot[0]
        n += 1
        try:
            j = json.loads(doc)
            ok = j.get('reset') is True and len(j.get('announced', [])) == len(a)
            err = None
        except ValueError as e:
            ok, err = False, str(e)
        if not ok:
            ctx.bad('gram', 'snapshot-doc:%s' % '+'.join(a), 'the snapshot document assembled from the templates (announced %s) is not valid: %s' % (a, err or 'wrong shape'))
    ctx.ok('gram', 'assemblies', '%d assembled documents parsed' % n)
    ctx.extra['assembled_documents'] = n
    ctx.sample(dict(example_document=(t_dh[0][1] + lst(['origin', 'aspa1']) + sep[0] + lst(['key']) + foot[0])[:600]))
    # header fields
    j = json.loads(t_dh[0][1] + sep[0] + foot[0])
    for f in ('session', 'serial', 'fromSerial', 'announced', 'withdrawn'):
        ctx.check(f in j, 'gram', 'delta-header:field:%s' % f, 'field present', 'delta header lacks "%s"' % f)
    for s in ctx.body('http::delta::DeltaStream::new').calls('http::delta::DeltaStream::append_header'):
        ds = [arg_desc(s, i) for i in range(1, 5)]
        ctx.check(ds[:3] == ['session', 'from_serial', 'to_serial'], 'prov', 'DeltaStream::new:header-args', 'header(session, from, to)', 'header args %s' % ds)
    # which hole is which serial: template order session, to_serial, from_serial
    for ph in placeholders(dh, ctx.repo):
        pass


def rule_sections_closed(ctx):
    """Each section is closed exactly where its iterator is retired: announce=None <=> separator, withdraw=None / iter=None <=> footer."""
    def through(b, site, sites):
        nodes = {x.bb for x in sites}
        if not nodes:
            return False
        if site.bb in nodes:
            return True
        if b.path_avoiding(site.bb, avoid_nodes=nodes) is None:
            return True
        return all(b.path_avoiding(r.bb, avoid_nodes=nodes, start=site.bb) is None for r in b.returns() if b.can_reach(site.bb, r.bb))
    for bn, fld, closer, what in (
            ('http::delta::DeltaStream::next_announce', 'announce', 'http::delta::DeltaStream::append_separator', 'separator between the announced and withdrawn lists'),
            ('http::delta::DeltaStream::next_withdraw', 'withdraw', 'http::delta::DeltaStream::append_footer', 'footer closing the document'),
            ('<http::delta::SnapshotStream as std::iter::Iterator>::next', 'iter', 'http::delta::DeltaStream::append_footer', 'footer closing the document')):
        b = ctx.body(bn)
        closers = b.calls(closer)
        retire = [site for site, how, adt, f, place in field_writes(b) if f == fld and how == 'assign'
                  and describe(b.origin_of_stmt(site)).startswith('Option::None')]
        ctx.floor('K2', 'retire-iterator stores in %s' % bn.split('::')[-1], len(retire), 1)
        for r in retire:
            ctx.check(through(b, r, closers), 'K2', '%s:%s=None=>%s' % (bn.split('::')[-2].rstrip('>') + '::' + bn.split('::')[-1], fld, closer.split('::')[-1]),
                      'when the %s iterator is retired the %s is written' % (fld, what),
                      '%s retires its iterator (self.%s = None) on a path that does not write the %s: the streamed JSON document '
                      'is left unterminated / the lists run into each other' % (bn, fld, what), loc=r.loc())
        # and the closer is written only there (once): every closer call is followed by the retire store
        for c in closers:
            ctx.check(through(b, c, retire), 'K2', '%s:%s=>%s=None' % (bn.split('::')[-1], closer.split('::')[-1], fld),
                      'after the %s the iterator is retired, so it is written once' % what,
                      '%s writes the %s without retiring the iterator: it can be written again on the next call' % (bn, what), loc=c.loc())


def rule_no_item_dropped(ctx):
    """An item taken out of the payload iterator is written before the next one is taken or the chunk is returned (the
    iterator cannot be rewound): after `iter.next() == Some(item)` every path reaches append_payload - or, in the two
    list passes of a delta, a test showing the item belongs to the other list - before the next pull or return."""
    from lib.tables import timeline, strip_suffix
    for bn, wanted in (('<http::delta::SnapshotStream as std::iter::Iterator>::next', None),
                       ('http::delta::DeltaStream::next_announce', 'Announce'),
                       ('http::delta::DeltaStream::next_withdraw', 'Withdraw')):
        b = ctx.body(bn)
        short = ('SnapshotStream' if 'SnapshotStream' in bn else 'DeltaStream') + '::' + bn.split('::')[-1]
        n_pulled = 0
        bad = None
        for p in enumerate_paths(b, ctx.facts, max_visits=2):
            pending = None
            for t in timeline(p):
                if t[0] == 'ev':
                    nm = t[1].callee
                    if nm.endswith('::append_payload'):
                        pending = None
                    elif re.search(r'(PayloadSet|PayloadDiff|Iterator)>?::next$', nm) and pending is not None:
                        bad = bad or (pending, 'the next item is pulled')
                else:
                    v, labs = strip_suffix(t[1]), set(t[2])
                    if re.match(r'^call:(PayloadSet|PayloadDiff|Iterator)>::next\(.*\)$', v) and labs == {'Some'}:
                        n_pulled += 1
                        pending = t[1]
                    elif wanted and pending is not None and re.search(r'@Some\.0\.1$', v) and wanted not in labs:
                        pending = None      # belongs to the other list
            if pending is not None and p.kind == 'return':
                bad = bad or (pending, 'the chunk is returned (%s)' % p.outcome)
        ctx.floor('K2', 'paths pulling an item in %s' % short, n_pulled, 2)
        ctx.check(bad is None, 'K2', '%s:pulled-item-written' % short, 'every pulled item is appended before the next pull / return',
                  '%s takes an item out of the iterator (%s) and then %s without writing it: the item is lost from the streamed '
                  'document' % (short, bad[0] if bad else '', bad[1] if bad else ''), loc='%s:%d' % (b.file, b.line))


def rule_comma(ctx):
    ap = ctx.body('http::delta::DeltaStream::append_payload')
    pushes = [s for s in ap.calls('Vec::push') if "44" in arg_desc(s, 1) or "b','" in arg_desc(s, 1) or "','" in arg_desc(s, 1)]
    ctx.floor('K4', 'comma push in append_payload', len(pushes), 1)
    for p in enumerate_paths(ap, ctx.facts, max_visits=2):
        cm = p.cond_map()
        f = [labs for v, labs in cm.items() if v == 'first']
        if not f:
            ctx.bad('K4', 'append_payload:first-not-tested', 'append_payload does not branch on `first`')
            break
        comma = any(s in pushes for s in p.events)
        ctx.check(comma == (f[0] == {'false'}), 'K4', 'append_payload:comma-iff-not-first:%s' % sorted(f[0]),
                  'comma %s when first=%s' % ('written' if comma else 'omitted', sorted(f[0])),
                  'append_payload writes comma=%s when first=%s' % (comma, sorted(f[0])))
    # DeltaStream: persistent flag
    for m in ('next_announce', 'next_withdraw'):
        b = ctx.body('http::delta::DeltaStream::' + m)
        calls = b.calls('http::delta::DeltaStream::append_payload')
        ctx.floor('K5', 'append_payload call in ' + m, len(calls), 1)
        for s in calls:
            d = arg_desc(s, 2)
            ctx.check(d == 'self.first', 'K5', 'DeltaStream::%s:flag-is-stream-state' % m,
                      'the comma flag handed to append_payload is the persistent field self.first',
                      'the comma flag handed to append_payload in %s is `%s`, not persistent stream state: when a chunk ends '
                      'between the separator and the first withdrawal (or between items) the "first item" information is lost '
                      'and the next chunk starts with a stray or missing comma' % (m, d), loc=s.loc())
            # after the item: self.first = false before returning
            clears = [site for site, how, adt, f, place in field_writes(b) if f == 'first' and how == 'assign'
                      and site.stmt['rv']['r'] == 'use' and site.stmt['rv']['o'].get('k', {}).get('int') == 0]
            ok = any(b.site_dominates(s, c) for c in clears) and all(
                b.path_avoiding(r.bb, avoid_nodes=[c.bb for c in clears], start=s.bb) is None for r in b.returns() if b.can_reach(s.bb, r.bb))
            ctx.check(ok, 'K5', 'DeltaStream::%s:flag-cleared-after-item' % m, 'self.first = false after every item',
                      'after writing an item %s can return without clearing the comma flag' % m, loc=s.loc())
    na = ctx.body('http::delta::DeltaStream::next_announce')
    seps = na.calls('http::delta::DeltaStream::append_separator')
    ctx.floor('K5', 'append_separator call', len(seps), 1)
    sets = [site for site, how, adt, f, place in field_writes(na) if f == 'first' and how == 'assign'
            and site.stmt['rv']['r'] == 'use' and site.stmt['rv']['o'].get('k', {}).get('int') == 1]
    for s in seps:
        ok = any(na.site_dominates(s, x) for x in sets)
        ctx.check(ok, 'K5', 'DeltaStream::next_announce:separator=>flag-set',
                  'after the separator the persistent flag is set to true (next item is the first withdrawal)',
                  'after writing the separator the persistent comma flag is not set: the first withdrawal is preceded by a comma '
                  'or the reset is lost at a chunk boundary', loc=s.loc())
        # separator only when the announce iterator is exhausted
        from lib.rules import G
        e, sw = G('announce exhausted', call='re:::next$', labels={'None'}).edges(na)
        ctx.check(bool(sw) and na.path_avoiding(s.bb, avoid_edges=e) is None, 'K4', 'next_announce:separator<=exhausted',
                  'separator written when announcements are exhausted', 'separator can be written before all announcements', loc=s.loc())
    nw = ctx.body('http::delta::DeltaStream::next_withdraw')
    for s in nw.calls('http::delta::DeltaStream::append_footer'):
        from lib.rules import G
        e, sw = G('withdraw exhausted', call='re:::next$', labels={'None'}).edges(nw)
        ctx.check(bool(sw) and nw.path_avoiding(s.bb, avoid_edges=e) is None, 'K4', 'next_withdraw:footer<=exhausted',
                  'footer written when withdrawals are exhausted', 'footer can be written early', loc=s.loc())
    # actions: announce list only Announce items, withdraw list only Withdraw
    for m, act in (('next_announce', 'Announce'), ('next_withdraw', 'Withdraw')):
        b = ctx.body('http::delta::DeltaStream::' + m)
        n = 0
        for p in enumerate_paths(b, ctx.facts, max_visits=2):
            if not p.called('http::delta::DeltaStream::append_payload'):
                continue
            n += 1
            labs = [l for v, l in p.cond_map().items() if v.endswith('@Some.0.1') or v.endswith('@Some.0.1#2')]
            ctx.check(bool(labs) and all(l == {act} for l in labs[-1:]), 'K4', '%s:only-%s' % (m, act),
                      '%s writes only %s items' % (m, act), '%s writes an item whose action is %s' % (m, [sorted(l) for l in labs]))
        ctx.floor('K4', 'item-writing paths in ' + m, n, 1)
    # SnapshotStream
    sn = ctx.body('<http::delta::SnapshotStream as std::iter::Iterator>::next')
    for s in sn.calls('http::delta::DeltaStream::append_payload'):
        o = sn.origin_of_operand(s.term['args'][2])
        d = describe(o)
        alts = [describe(a) for a in getattr(o, 'alts', [])] or [d]
        ok = any('is_some(self.header)' in a for a in alts) and all(('is_some(self.header)' in a) or a == 'const(0)' for a in alts)
        ctx.check(ok, 'K5', 'SnapshotStream::next:flag=header.is_some', 'first = self.header.is_some(), then false',
                  'SnapshotStream comma flag is %s' % alts, loc=s.loc())


def rule_stream_initial_state(ctx):
    """A new DeltaStream starts in the announce phase with header, both cursors and the comma flag set; a new
    SnapshotStream with header and cursor: a phase that starts `None` is skipped together with its separator/footer."""
    from lib.rules import agg_sites
    for bn, adt, want in (('http::delta::DeltaStream::new', 'http::delta::DeltaStream',
                           {'header': 'Option::Some(', 'announce': 'Option::Some(', 'withdraw': 'Option::Some(', 'first': 'const(1)'}),
                          ('http::delta::SnapshotStream::new', 'http::delta::SnapshotStream',
                           {'header': 'Option::Some(', 'iter': 'Option::Some('})):
        b = ctx.body(bn)
        lits = agg_sites(b, adt)
        ctx.floor('K5', 'literal in %s' % bn.split('::')[-2], len(lits), 1)
        for l in lits:
            rv = l.stmt['rv']
            for f, pref in want.items():
                if f not in rv['names']:
                    ctx.bad('K5', '%s:init:%s' % (bn.split('::')[-2], f), 'field %s is no longer part of %s' % (f, adt))
                    continue
                d = describe(b.origin_of_operand(rv['ops'][rv['names'].index(f)]))
                ctx.check(d.startswith(pref), 'K5', '%s:init:%s' % (bn.split('::')[-2], f),
                          '%s.%s starts as %s' % (adt.split('::')[-1], f, d[:50]),
                          '%s::new initialises `%s` with `%s`: the stream can start with that phase already finished, so the list '
                          'separator / header belonging to it is never written (e.g. a withdraw-only delta puts its items into '
                          '"announced")' % (adt.split('::')[-1], f, d[:80]), loc=l.loc())


RULES = [rule_stream_initial_state, rule_sections_closed, rule_no_item_dropped, rule_k6, rule_grammar, rule_comma]
