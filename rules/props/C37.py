"""C37 Each repository is fetched at most once per run (K2 ordering + K3)."""
from lib.facts import callee_matches, PASS_LABELS
from lib.rules import (calls_on_field, edges_from_call, fmt_path, who_calls, arg_path, held_at)

META = dict(
    level='other',
    explanation=(
        'Static ordering/dominance rule over the MIR of the two once-per-run bookkeeping bodies '
        '(collector::rsync::Run::load_module, collector::rrdp::Run::load_repository): the per-key mutex is '
        'taken, `updated` is re-checked under it, the fetch happens only on the not-yet-updated edge, and on '
        'every path the key is inserted into `updated` BEFORE it is removed from `running` (otherwise a '
        'second thread can create a fresh mutex, pass the re-check and fetch again). Who-may-call: the fetch '
        'primitives have no other caller. Decides the ordering for all schedules because it is a property '
        'of the order of calls in one CFG.'),
    decides='the whole property (the bookkeeping order is the property)',
    undecided='fairness of std Mutex; rsync/HTTP client internals',
    trusted_base=['rustc MIR construction + callee resolution', 'std RwLock/Mutex semantics'],
    rules=['K2 insert(updated) dominates remove(running)', 'K1 fetch dominated by lock and by re-check false edge',
           'K3 fetch primitives called only from the bookkeeping bodies'],
)

INSTANCES = [
    dict(body='collector::rsync::Run::load_module', fetch='RsyncCommand::update',
         lookup=['HashSet::contains'], insert=['HashSet::insert'], remove=['HashMap::remove']),
    dict(body='collector::rrdp::base::Run::load_repository', fetch='RepositoryUpdate::try_update',
         lookup=['HashMap::get'], insert=['HashMap::insert'], remove=['HashMap::remove']),
]


def rule_order(ctx):
    for inst in INSTANCES:
        b = ctx.body(inst['body'])
        short = b.nid
        fetches = b.calls(inst['fetch'])
        ctx.floor('K1', 'fetch call in ' + short, len(fetches), 1)
        locks = [s for s in b.calls('Mutex::lock')
                 if 'running' in arg_path(s, 0, through_locks=True) or True]
        # the lock that guards the fetch is the one dominating it
        inserts = calls_on_field(b, inst['insert'], 'updated')
        removes = calls_on_field(b, inst['remove'], 'running')
        ctx.floor('K2', 'updated.insert in ' + short, len(inserts), 1)
        ctx.floor('K2', 'running.remove in ' + short, len(removes), 1)
        # re-check edges: lookup on `updated` whose result is switched on
        found_edges, miss_edges, sw = edges_from_call(b, inst['lookup'], {'true', 'Some'}, recv_field='updated')
        ctx.floor('K1', 'updated lookups branched on in ' + short, len(sw), 2)
        for f in fetches:
            ctx.call_sites += 1
            dom_locks = [l for l in locks if b.site_dominates(l, f)]
            ctx.check(bool(dom_locks), 'K1', '%s:lock<fetch' % short,
                      'fetch %s is dominated by a Mutex::lock (%s)' % (inst['fetch'], [l.loc() for l in dom_locks]),
                      'fetch %s can be reached without holding the per-repository mutex' % inst['fetch'], loc=f.loc())
            # re-check under the lock: a lookup switch dominated by the lock whose not-found edge dominates the fetch
            ok = False
            for sbb in sw:
                from lib.facts import Site
                ssite = Site(b, sbb)
                if not any(b.site_dominates(l, ssite) for l in dom_locks):
                    continue
                miss = [e for e in miss_edges if e[0] == sbb]
                p = b.path_avoiding(f.bb, avoid_edges=miss)
                if p is None:
                    ok = True
            ctx.check(ok, 'K1', '%s:recheck<fetch' % short,
                      'fetch is only reachable through the not-found edge of an `updated` re-check made under the lock',
                      'fetch is reachable without re-checking `updated` after acquiring the mutex', loc=f.loc())
            # the guard must still be held at the insert (scope-end Drop, explicit drop(guard) or a move all count)
            for l in dom_locks:
                for ins in inserts:
                    if not b.site_dominates(l, ins):
                        continue
                    held, rel = held_at(b, l, ins)
                    ctx.check(held, 'K2', '%s:guard-live-at-insert' % short,
                              'the per-repository mutex guard (%s) is still held when the key is inserted into `updated`' % l.loc(),
                              'the per-repository mutex guard is released at %s before updated.insert (%s): a thread queued on '
                              'the mutex takes it, does not find the key in `updated` and fetches again'
                              % (rel.loc() if rel else '?', ins.loc()), loc=ins.loc())
        for r in removes:
            ctx.call_sites += 1
            # OK if dominated by an insert, or dominated by a found-edge of an updated lookup
            by_insert = [i for i in inserts if b.site_dominates(i, r)]
            by_found = b.path_avoiding(r.bb, avoid_edges=found_edges) is None if found_edges else False
            witness = None
            if not (by_insert or by_found):
                witness = fmt_path(b, b.path_avoiding(r.bb, avoid_nodes=[i.bb for i in inserts],
                                                      avoid_edges=found_edges))
            ctx.check(bool(by_insert) or by_found, 'K2',
                      '%s:%s@updated<%s@running' % (short, inst['insert'][0], inst['remove'][0]),
                      'running.remove at %s happens only after the key is in `updated` (%s)'
                      % (r.loc(), 'insert dominates' if by_insert else 'lookup found'),
                      'running.remove at %s can execute before updated.insert: a thread arriving in between creates '
                      'a fresh mutex, passes the re-check and fetches the repository a second time' % r.loc(),
                      loc=r.loc(), path=witness)
            ctx.sample(dict(body=short, remove=r.loc(), inserts=[i.loc() for i in inserts],
                            dominated_by_insert=bool(by_insert), dominated_by_found_edge=by_found))


def rule_callers(ctx):
    who_calls(ctx, 'K3', 'collector::rsync::RsyncCommand::update', ['collector::rsync::Run::load_module'])
    who_calls(ctx, 'K3', 'RepositoryUpdate::try_update',
              ['collector::rrdp::base::Run::load_repository'])


RULES = [rule_order, rule_callers]
