"""C41 A broken repository affects only its own subtree (error-source allowlist for run-failing errors)."""
import re
from lib.facts import norm, callee_name, Origin, Site
from lib.rules import agg_sites, arg_desc
from lib.tables import describe, enumerate_paths

META = dict(
    level='other',
    explanation=(
        'In routinator the error TYPE says how far a failure reaches: error::{Failed,Fatal,RunFailed} (and '
        'SnapshotError/DeltaError/UpdateError::{RunFailed,Failed} wrapping them) end the whole validation run, every other '
        'outcome (Ok(None), Ok(Err(self)), Abort, log-and-skip) stays inside the publication point. The check is an '
        'error-source audit over the per-repository run path (engine::PubPoint::*, engine::Run::{process_ca_task,'
        'process_tal_task,load_ta}, collector::base::Run::{repository,load_ta}, collector::rrdp::base::{Run::load_repository,'
        'LoadResult::read,Repository::read,ReadRepository::new,RepositoryUpdate::*}, collector::rrdp::update::{SnapshotUpdate,'
        'DeltaUpdate}::* incl. their closures): (1) every `?` whose residual error type is run-failing has its error '
        'produced by a LOCAL source (store::, utils::fatal::, utils::archive::, collector::rrdp::archive::, tempfile, the '
        'working-directory helpers), a processor CALLBACK (engine::ProcessPubPoint/ProcessRun, i.e. the payload builder), '
        'or another audited body; a source in the rpki crate, the HTTP client, the rsync command or a validation helper '
        'is reported; (2) every explicit construction of Err(run-failing) in those bodies is in a reviewed table keyed by '
        '(body, error expression) with its count; (3) the From conversions INTO RunFailed/Failed/Fatal are exactly '
        '{Fatal,Failed}, and a From impl for SnapshotError/DeltaError/UpdateError builds the run-failing variant only from '
        'RunFailed/Failed; (4) the rsync collector cannot fail the run at all (no run-failing type in the signatures of '
        'Run::load_module and below); (5) closed guard set: the switches that decide whether RsyncCommand::update / RepositoryUpdate::try_update is reached '
        'in rsync::Run::load_module / rrdp::Run::load_repository test only that repository\'s own state (already updated, '
        'dubious authority, rsync configured); (6) shared with C08 (same rule function): RejectedResources::keep_prefix tests a '
        'prefix only against the rejected blocks of its own address family, so a rejected CA does not remove other-family '
        'VRPs of unrelated CAs under unsafe-vrps=reject.'),
    decides='which failures can end the run (and so affect CAs outside the faulty repository): only local I/O, payload-builder callbacks, and the listed explicit cases',
    undecided='equality of the payload of unaffected CAs; logic errors that turn a remote fault into a later LOCAL error (e.g. F18, decided under C25); resource exhaustion',
    trusted_base=['rustc MIR construction + callee resolution + residual type arguments of `?`'],
    rules=['K1 fetch decision depends on the repository alone (closed guard set)', 'error-source allowlist (fail closed)', 'explicit Err table', 'From-conversion table', 'K3 rsync cannot fail the run', 'C08 family rule (shared)'],
)

RUNFAIL = re.compile(r'\berror::(RunFailed|Failed|Fatal)\b')
WRAPPERS = ('collector::rrdp::update::SnapshotError', 'collector::rrdp::update::DeltaError', 'store::UpdateError',
            'utils::archive::ArchiveError', 'utils::archive::OpenError', 'collector::rrdp::archive::OpenError')

SCOPE = [
    're:^engine::PubPoint::\\w+(::\\{closure#\\d+\\})*$',
    're:^engine::Run::(process_ca_task|process_tal_task|load_ta|process)(::\\{closure#\\d+\\})*$',
    're:^collector::base::Run::(repository|load_ta)(::\\{closure#\\d+\\})*$',
    're:^collector::base::Repository::load_object$',
    're:^collector::rrdp::base::ReadRepository::load_object$',
    're:^collector::rrdp::base::Run::load_repository(::\\{closure#\\d+\\})*$',
    're:^collector::rrdp::base::(LoadResult::read|Repository::read|ReadRepository::new)(::\\{closure#\\d+\\})*$',
    're:^collector::rrdp::base::RepositoryUpdate::\\w+(::\\{closure#\\d+\\})*$',
    're:^collector::rrdp::update::(SnapshotUpdate|DeltaUpdate)::\\w+(::\\{closure#\\d+\\})*$',
    're:^<collector::rrdp::update::(SnapshotUpdate|DeltaUpdate) as rpki::rrdp::Process(Snapshot|Delta)>::\\w+(::\\{closure#\\d+\\})*$',
]
LOCAL = re.compile(
    r'^(store::|utils::fatal::|<utils::fatal::|utils::archive::|collector::rrdp::archive::|tempfile::|'
    r'collector::rrdp::base::Collector::(repository_path|temp_file)$|'
    r'collector::rrdp::base::(LoadResult|Repository|ReadRepository)::)')
CALLBACK = re.compile(r'^engine::Process(PubPoint|Run)::')

# explicit Err(<run-failing>) constructions: (body regex, expression regex) -> (count, reason)
EXPLICIT = [
    (r'^engine::PubPoint::process$', r'RunFailed::retry', 1,
     'initial quick validation met a new publication point: the run is repeated with collection enabled (not a repository fault)'),
    (r'^engine::PubPoint::process_collected$', r'StoredPoint::update.*Failed', 1, 'store update failed with a local error (UpdateError::Failed)'),
    (r'^engine::PubPoint::process_stored$', r'^Failed::Failed\(\)$', 1, 'stored object read error that is_fatal() (local I/O)'),
    (r'^engine::Run::process_ca_task$', r'^Failed::Failed\(\)$', 1, 'another worker already failed the run (had_err)'),
    (r'^engine::Run::process_tal_task$', r'^Failed::Failed\(\)$', 1, 'initial quick validation without a stored trust anchor: run repeated'),
    (r'^engine::Run::process$', r'RunFailed::(fatal|retry)', 2, 'reports the run state recorded by the workers (C33)'),
    (r'^collector::rrdp::base::RepositoryUpdate::try_update$', r'RrdpArchive::try_open', 1, 'local archive open error that is not should_retry()'),
    (r'^collector::rrdp::base::RepositoryUpdate::snapshot_update$', r'SnapshotUpdate::try_update.*RunFailed', 1, 'unwraps SnapshotError::RunFailed (local)'),
    (r'^collector::rrdp::base::RepositoryUpdate::snapshot_update$', r'RunFailed::fatal', 2, 'fs::remove_file / fs::rename of the archive failed (local)'),
    (r'^collector::rrdp::base::RepositoryUpdate::delta_update$', r'RrdpArchive::update_state', 1, 'local archive write error that is not should_retry()'),
]

# Bodies on the run path whose Err is a verdict about DATA (invalid stored manifest ...): they are deliberately NOT audited
# sources, so a `?` applied to their result in an audited body is reported; their callers must match on the result.
DATA_LEVEL = {
    'engine::PubPoint::validate_stored_manifest': 'Err(Failed) = the stored manifest/CRL is not (or no longer) valid; process_stored rejects the point and returns Ok',
}

FROM_ALLOWED = {
    'error::RunFailed': {'error::Fatal', 'error::Failed'},
    'error::Failed': {'error::Fatal'},
    'error::Fatal': {'error::Failed'},
}


def _unknown(ctx):
    u = getattr(ctx, '_unknown_fns', None)
    if u is None:
        u = set(ctx.facts.unknown_functions())
        ctx._unknown_fns = u
    return u


def scope_bodies(ctx):
    out = {}
    for pat in SCOPE:
        for b in ctx.facts.find(pat):
            if b.rec.get('derive') or '::test::' in b.nid or b.nid in DATA_LEVEL:
                continue
            if getattr(ctx.facts, 'inline', False) and b.nid.split('::{')[0] in _unknown(ctx):
                continue        # a new helper: spliced into (and judged as part of) its callers in this run
            out[b.nid] = b
    return out


def in_scope(name, scope):
    return name in scope


def residual_type(s):
    t = s.term['fn'].get('targs') or []
    return t[1] if len(t) > 1 else (t[0] if t else '')


def err_type_runfailing(ty):
    # only residuals that ARE run-failing: a wrapper-typed residual (SnapshotError ...) passes a value through unchanged,
    # its run-failing variant is governed by the conversion table and the explicit table
    return bool(RUNFAIL.search(ty))


def sources_of(b, o):
    """Callees that produced the value at origin o (through Try::branch / map_err / and_then)."""
    out = []
    for c in o.calls():
        n = norm(c.callee)
        if re.search(r'Try>?::branch$|Result(<.*>)?::(map_err|and_then|map|ok_or|ok_or_else)$|Option(<.*>)?::(ok_or|ok_or_else|map)$|Iterator>?::next$', n):
            continue
        out.append(n)
    return out


def rule_sources(ctx):
    scope = scope_bodies(ctx)
    ctx.floor('audit', 'bodies on the per-repository run path', len(scope), 40)
    nq = 0
    for nid, b in sorted(scope.items()):
        ctx.bodies.add(nid)
        for s in b.calls('re:FromResidual.*::from_residual$'):
            rty = residual_type(s)
            if not err_type_runfailing(rty):
                continue
            nq += 1
            o = b.origin_of_operand(s.term['args'][0])
            srcs = sources_of(b, o)
            if not srcs:
                ctx.bad('audit', 'source:%s:unknown' % nid, '%s propagates a run-failing error (%s) whose source cannot be determined' % (nid, rty),
                        loc=s.loc())
                continue
            src = srcs[0]
            # iterator over a local reader: `for item in archive.objects()? { item? }`
            if LOCAL.search(src) or CALLBACK.search(src) or in_scope(src, scope) or src.split('::{closure')[0] in scope:
                cls = 'local' if LOCAL.search(src) else ('callback' if CALLBACK.search(src) else 'audited')
                ctx.ok('audit', 'source:%s<-%s' % (nid, src), '%s error from %s (%s)' % (rty.split('Infallible, ')[-1].rstrip('>'), src, cls), loc=s.loc())
            else:
                # wrappers: only the run-failing variant matters; a wrapper-typed residual from a non-local source is fine
                # iff the wrapper value was produced by an audited body (SnapshotUpdate::try_update etc.)
                ctx.bad('audit', 'source:%s<-%s' % (nid, src),
                        '%s lets an error of %s end the whole validation run (residual type %s): a fault in one repository or object '
                        'is no longer confined to its publication point' % (nid, src, rty.split('Infallible, ')[-1].rstrip('>')), loc=s.loc())
    ctx.floor('audit', 'run-failing `?` sites audited', nq, 40)
    # results returned whole (no `?`): `fn f() -> Result<_, RunFailed> { g() }`
    np = 0
    for nid, b in sorted(scope.items()):
        rt = b.rec['locals'][0]['ty']
        if not (rt.startswith('std::result::Result<') and RUNFAIL.search(rt.rsplit(',', 1)[-1])):
            continue
        o = b.origin_of_place([0])
        for c in passthrough_calls(o):
            src = norm(c.callee)
            if re.search(r'FromResidual.*::from_residual$', src):
                continue
            np += 1
            ok = LOCAL.search(src) or CALLBACK.search(src) or src in scope
            ctx.check(bool(ok), 'audit', 'passthrough:%s<-%s' % (nid, src),
                      '%s returns the result of %s unchanged (audited/local)' % (nid, src),
                      '%s returns the Result of %s unchanged: its errors end the whole validation run although %s is neither local '
                      'I/O, a payload-builder callback nor an audited body' % (nid, src, src), loc='%s:%d' % (b.file, b.line))
    ctx.floor('audit', 'results returned whole', np, 3)


def passthrough_calls(o):
    out = []
    seen = {}

    def walk(x):
        if x is None or id(x) in seen:
            return
        seen[id(x)] = x
        if x.kind == 'call':
            n = norm(x.callee)
            if re.search(r'Result(<.*>)?::(map_err|map|and_then)$', n) and x.args:
                walk(x.args[0])
                return
            out.append(x)
            return
        if x.kind in ('ref', 'cast'):
            walk(x.base)
        elif x.kind == 'multi':
            for a in x.alts:
                walk(a)
    walk(o)
    return out


def rule_explicit(ctx):
    scope = scope_bodies(ctx)
    found = {}
    for nid, b in sorted(scope.items()):
        rt = b.rec['locals'][0]['ty']
        for site, st in b.stmts():
            if st['s'] != 'assign' or st['rv']['r'] != 'agg' or st['rv'].get('variant') != 'Err':
                continue
            if 'Result' not in (st['rv'].get('adt') or ''):
                continue
            lty = b.rec['locals'][st['lhs'][0]]['ty'] if st['lhs'] else ''
            d = describe(b.origin_of_operand(st['rv']['ops'][0]))
            # only run-failing payloads: Failed/Fatal/RunFailed values, or wrapper variants carrying them
            ety = lty
            if not (RUNFAIL.search(ety) or any(w in ety for w in WRAPPERS)):
                continue
            if any(w in ety for w in WRAPPERS) and not RUNFAIL.search(ety.split('Result<')[-1].split(',')[-1]):
                # wrapper error: run-failing only when the RunFailed/Failed variant is built
                if not re.search(r'::(RunFailed|Failed)\(|RunFailed::|Failed::Failed', d):
                    continue
            found.setdefault(nid, []).append((d, site))
    table_hits = {i: 0 for i in range(len(EXPLICIT))}
    for nid, lst in sorted(found.items()):
        for d, site in lst:
            hit = None
            for i, (bre, ere, cnt, why) in enumerate(EXPLICIT):
                if re.search(bre, nid) and re.search(ere, d):
                    hit = i
                    break
            if hit is None and re.match(r'^(call:(?:\w+::)*From>?::from\()?call:.*@Err\.0\)?$', d):
                # `match f() { Ok(x) => x, Err(err) => return Err(err) }`: the explicit form of `f()?` - judged like a `?` source
                b = scope[nid]
                srcs = sources_of(b, b.origin_of_operand(site.stmt['rv']['ops'][0]))
                src = srcs[0] if srcs else '?'
                ok = bool(srcs) and (LOCAL.search(src) or CALLBACK.search(src) or in_scope(src, scope) or src.split('::{closure')[0] in scope)
                ctx.check(bool(ok), 'audit', 'source:%s<-%s' % (nid, src), 'error of %s passed on explicitly (audited/local)' % src,
                          '%s lets an error of %s end the whole validation run (explicit `Err(err) => return Err(err)`): a fault in one '
                          'repository or object is no longer confined to its publication point' % (nid, src), loc=site.loc())
                continue
            if hit is None:
                # an inner Err that is an Ok(Err(self)) style fallback value is not run-failing: lhs type decides
                ctx.bad('audit', 'explicit:%s:%s' % (nid, re.sub(r'@bb\d+', '', d)[:60]),
                        '%s returns a run-failing error built in place (%s) that is not in the reviewed table: the whole run '
                        'ends for a condition local to one publication point' % (nid, d[:80]), loc=site.loc())
            else:
                table_hits[hit] += 1
    for i, (bre, ere, cnt, why) in enumerate(EXPLICIT):
        ctx.check(table_hits[i] == cnt, 'audit', 'explicit-table:%s:%s' % (bre.strip('^$'), ere[:30]),
                  '%d explicit run-failing Err(s): %s' % (cnt, why),
                  'expected %d explicit Err matching /%s/ in %s (%s), found %d: the reviewed table no longer describes the code'
                  % (cnt, ere, bre, why, table_hits[i]))


def rule_conversions(ctx):
    n = 0
    for imp in ctx.facts.impls:
        if imp.get('trait') != 'std::convert::From':
            continue
        tgt = imp.get('self')
        m = re.search(r'From<(.*)>>$', imp['id'])
        src = m.group(1) if m else '?'
        if tgt in FROM_ALLOWED:
            n += 1
            ctx.check(src in FROM_ALLOWED[tgt], 'conv', 'from:%s<-%s' % (tgt, src),
                      '%s converts into %s (both run-failing)' % (src, tgt),
                      'impl From<%s> for %s: every `?` on a %s inside a function returning %s now ends the whole run' % (src, tgt, src, tgt))
        elif tgt in ('collector::rrdp::update::SnapshotError', 'collector::rrdp::update::DeltaError', 'store::UpdateError'):
            n += 1
            # which variants can the conversion build?
            fn = [it['def'] for it in imp.get('items', []) if it['name'] == 'from']
            bs = [b for b in (ctx.facts.find(norm(fn[0])) if fn else []) if b.rec['id'] == fn[0]]
            variants = set()
            for b in bs:
                ctx.bodies.add(b.nid)
                for site in agg_sites(b, tgt):
                    variants.add(site.stmt['rv'].get('variant'))
            run = variants & {'RunFailed', 'Failed'}
            ok = (not run) or bool(RUNFAIL.search(src))
            ctx.check(ok and bool(variants), 'conv', 'from:%s<-%s' % (tgt.split('::')[-1], src),
                      'From<%s> for %s builds %s' % (src, tgt.split('::')[-1], sorted(v for v in variants if v)),
                      'impl From<%s> for %s builds the run-failing variant %s from an error that is not run-failing: a remote/data '
                      'fault of that type ends the run' % (src, tgt, sorted(run)))
    ctx.floor('conv', 'From conversions into run-failing / wrapper error types', n, 18)


def rule_rsync(ctx):
    bs = ctx.facts.find('re:^collector::rsync::Run::(load_module|load_module_inner)$') or []
    names = ['collector::rsync::Run::load_module', 'collector::rsync::RsyncCommand::update']
    n = 0
    for nm in names:
        for b in ctx.facts.find(nm):
            n += 1
            ctx.bodies.add(b.nid)
            rt = b.rec['locals'][0]['ty']
            ctx.check(not RUNFAIL.search(rt), 'K3', 'rsync-cannot-fail-run:%s' % nm,
                      '%s returns %s: an rsync failure cannot end the run' % (nm, rt),
                      '%s now returns %s: a failing rsync server can end the whole run' % (nm, rt), loc='%s:%d' % (b.file, b.line))
    ctx.floor('K3', 'rsync update entry points', n, 2)
    b = ctx.body('collector::base::Run::repository')
    for s in b.calls('re:FromResidual.*::from_residual$'):
        srcs = sources_of(b, b.origin_of_operand(s.term['args'][0]))
        ctx.check(bool(srcs) and srcs[0].startswith('collector::rrdp::base::Run::load_repository'), 'K3', 'repository:only-rrdp-local-errors',
                  'collector::base::Run::repository propagates errors of the RRDP archive layer only',
                  'collector::base::Run::repository propagates an error from %s' % srcs[:1], loc=s.loc())


# What may decide whether the update of ONE repository is attempted: its own state only.
FETCH_DECISIONS = {
    'collector::rsync::Run::load_module': ('collector::rsync::RsyncCommand::update', [
        (r'collector\.command|Option::as_ref\(.*command', 'rsync is configured at all'),
        (r'HashSet::contains\(.*updated.*Module::from_uri|HashSet::contains\(.*updated', 'this module was already updated in this run'),
        (r'filter_dubious', 'the dubious-host filter is on'),
        (r'has_dubious_authority\((\*?)uri\)|UriExt::has_dubious_authority', 'this URI has a dubious authority'),
    ]),
    'collector::rrdp::base::Run::load_repository': ('collector::rrdp::base::RepositoryUpdate::try_update', [
        (r'HashMap::get\(.*updated.*rpki_notify', 'this repository was already updated in this run'),
        (r'filter_dubious', 'the dubious-host filter is on'),
        (r'has_dubious_authority\(rpki_notify\)|UriExt::has_dubious_authority', 'this URI has a dubious authority'),
        (r'RepositoryUpdate::new', 'local set-up of the update failed (`?`, run-failing, audited above)'),
    ]),
}


def var_atoms(ctx, b, local, depth=0):
    """A bool temporary (`let dubious = if filter { uri.has_dubious_authority() } else { false };`) decides through the
    values assigned to it and through the switches that select which assignment runs."""
    defs = [site for site, st in b.stmts() if st['s'] == 'assign' and st['lhs'] == [local]]
    cdefs = [Site(b, i) for i, blk in enumerate(b.blocks) if blk['term'].get('t') == 'call' and blk['term'].get('dest') == [local]
             and not blk.get('cleanup')]
    if not (defs or cdefs) or depth > 2:
        return None
    atoms = ['call:%s(%s)' % (norm(c.callee), ','.join(arg_desc(c, i) for i in range(len(c.term['args'])))) for c in cdefs]
    for site in defs:
        st = getattr(site, 'stmt', None)
        if st is not None and st['s'] == 'assign':
            rv = st['rv']
            d = describe(b.origin_of_stmt(site))
            if not re.match(r'^const\(', d):
                atoms.append(d)
    dbbs = {site.bb for site in defs} | {c.bb for c in cdefs}
    for sbb in b.switches():
        o, edges = b.switch_edges(sbb)
        tg = list(edges)
        hits = [tb for tb in tg if any(x == tb or x in b.reachable(tb) for x in dbbs)]
        per = [frozenset(x for x in dbbs if x == tb or x in b.reachable(tb)) for tb in tg]
        if len(set(per)) > 1 and o is not None:
            atoms.append(describe(o))
    return atoms or None


def decision_atoms(ctx, b, o):
    """What a deciding switch tests: its own description, or - for a small crate-local bool helper - everything the helper
    branches on / returns."""
    oc = o
    for _ in range(10):
        if oc is None:
            break
        if oc.kind in ('ref', 'cast'):
            oc = oc.base
        elif oc.kind == 'un' and getattr(oc, 'op', '') == 'Not':
            oc = oc.a
        else:
            break
    if oc is not None and oc.kind in ('var', 'local', 'phi', 'multi') and getattr(oc, 'local', None) is not None:
        va = var_atoms(ctx, b, oc.local)
        if va:
            return va
    if oc is not None and oc.kind == 'call':
        nm = norm(oc.callee)
        if nm.split('::')[0] not in ('std', 'core', 'alloc', 'rpki'):
            hbs = ctx.facts.find(nm)
            if len(hbs) == 1 and len(hbs[0].blocks) <= 80 and hbs[0].nid != b.nid:
                hb = hbs[0]
                ctx.bodies.add(hb.nid)
                atoms = []
                for sbb in hb.switches():
                    ho, _e = hb.switch_edges(sbb)
                    if ho is not None:
                        atoms.append(describe(ho))
                rd = describe(hb.origin_of_place([0]))
                if not re.match(r'^(phi\()?const\(', rd):
                    atoms += [x for x in re.split(r'[|]', rd.strip('phi()')) if not x.startswith('const(')] if rd.startswith('phi(') else [rd]
                if atoms:
                    return atoms
    return [describe(o) if o is not None else '?']


def rule_fetch_decision_local(ctx):
    """Whether a repository is fetched depends on that repository alone (no state left behind by other repositories)."""
    for bn, (sink_pat, allowed) in FETCH_DECISIONS.items():
        b = ctx.body(bn)
        sinks = b.calls(sink_pat)
        ctx.floor('K1', 'update call in %s' % bn.split('::')[-1], len(sinks), 1)
        n = 0
        for sk in sinks:
            for sbb in b.switches():
                if not b.can_reach(sbb, sk.bb):
                    continue
                o, edges = b.switch_edges(sbb)
                tgts = list(edges)
                reach = [tb for tb in tgts if tb == sk.bb or sk.bb in b.reachable(tb)]
                if not reach or len(reach) == len(tgts):
                    continue        # not a deciding switch
                n += 1
                d = describe(o) if o is not None else '?'
                atoms = [d] if any(re.search(rx, d) for rx, _w in allowed) else decision_atoms(ctx, b, o)
                unknown = [a for a in atoms if not any(re.search(rx, a) for rx, _w in allowed)]
                why = [] if unknown else [w for rx, w in allowed if any(re.search(rx, a) for a in atoms)]
                if unknown:
                    d = '; '.join(unknown)
                ctx.check(bool(why), 'K1', 'fetch-decision:%s:%s' % (bn.split('::')[-1], re.sub(r'@bb\d+', '', d)[:70]),
                          'the update is skipped/attempted depending on: %s' % (why[0] if why else d[:60]),
                          '%s decides whether to fetch this repository on `%s`, which is not a property of this repository: a fault '
                          'recorded for one repository (host, module ...) keeps other repositories from being fetched, so their CAs '
                          'lose or keep stale data' % (bn, d[:140]), loc=Site(b, sbb).loc())
        ctx.floor('K1', 'deciding switches in %s' % bn.split('::')[-1], n, 3)


LOCAL_VARIANTS = {'Archive', 'Io', 'Corrupt'}


def rule_wrapper_constructions(ctx):
    """SnapshotError::RunFailed / DeltaError::RunFailed / UpdateError::Failed built in place (not through From): only on
    paths that matched a LOCAL fault (an archive / I/O error variant), never for a data verdict of the remote content."""
    scope = scope_bodies(ctx)
    n = 0
    for nid, b in sorted(scope.items()):
        sites = []
        for adt, var in (('collector::rrdp::update::SnapshotError', 'RunFailed'), ('collector::rrdp::update::DeltaError', 'RunFailed'),
                         ('store::UpdateError', 'Failed')):
            sites += [(adt, x) for x in agg_sites(b, adt, var)]
        if not sites:
            continue
        ctx.bodies.add(nid)
        for p in enumerate_paths(b, ctx.facts):
            o = p.outcome or ''
            if not re.search(r'(SnapshotError|DeltaError)::RunFailed\(|UpdateError::Failed\(', o):
                continue
            n += 1
            cm = p.cond_map()
            matched = set()
            for v, labs in cm.items():
                if v == 'err' or v.startswith('err@') or re.match(r'^(call:)?[\w:]*[Ee]rr', v):
                    matched |= {str(x) for x in labs}
            local = bool(matched & LOCAL_VARIANTS) and not (matched - LOCAL_VARIANTS - {'Err', 'fail'})
            ctx.check(local, 'audit', 'wrapper-runfailed:%s:%s' % (nid, '+'.join(sorted(matched)) or 'unconditional'),
                      'a run-failing wrapper error is built only for a local archive/I-O fault (%s)' % sorted(matched),
                      '%s turns the error case %s into a run-failing error (%s): a verdict about the REMOTE content of one repository '
                      '(duplicate object, mismatch ...) ends the whole validation run and every other CA loses its update'
                      % (nid, sorted(matched) or 'any', o[:60]), loc=p.ret_site.loc() if p.ret_site else None)
    ctx.floor('audit', 'in-place constructions of run-failing wrapper errors', n, 2)


from props.C08 import rule_keep_prefix as rule_family  # noqa: E402  (shared: keep_prefix tests only the prefix's own family)


RULES = [rule_wrapper_constructions, rule_fetch_decision_local, rule_sources, rule_explicit, rule_conversions, rule_rsync, rule_family]
