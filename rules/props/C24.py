"""C24 A crash never leaves an RRDP copy that is silently wrong (K2, K1, K3 clauses)."""
import re
from lib.facts import Site
from lib.rules import G, require_guards, arg_desc, who_calls, arg_path, agg_sites, fmt_path
from lib.tables import enumerate_paths, describe

META = dict(
    level='other',
    explanation=(
        'Ordering/guard clauses that make every crash point recoverable. Delta path (in-place): in '
        'RepositoryUpdate::delta_update the repository state (serial, delta hashes) is written by update_state only after '
        'every DeltaUpdate::try_update succeeded, no delta is applied after the state was written, and Ok(None) (success) is '
        'returned only after Ok(update_state) - so after a kill the state still names the OLD serial and the next run '
        're-applies the deltas, whose per-object hash preconditions (checked inside RrdpArchive::update_object / '
        'delete_object BEFORE mutation via the archive\'s check closure) either still hold or force a snapshot. The object '
        'operations themselves must not succeed without going through the archive: every Ok path of '
        'update_object/delete_object/publish_object is the Ok of Archive::update/delete/publish (a shortcut that trusts '
        'stored metadata, e.g. "hash already equal, skip the write", would accept an object torn by a kill). Snapshot path: '
        'the new archive is built in a temp file, SnapshotUpdate::try_update publishes its state only after the hash '
        'verification (C25), and fs::rename(temp, final) is reachable only after Ok(try_update); nothing else writes the '
        'final path.'),
    decides='state-written-last, precondition-before-mutation, no success without archive write, temp+rename for snapshots',
    undecided='mmap flush ordering inside utils::archive; the full crash x history space',
    trusted_base=['rustc MIR construction + callee resolution', 'rename(2) atomicity'],
    rules=['K2 update_state last', 'K1 Ok only via archive ops', 'K1 check closure compares the expected hash', 'K1/K3 rename after verified snapshot'],
)

OKL = {'Ok', 'pass', 'Some'}


def rule_state_last(ctx):
    b = ctx.body('collector::rrdp::base::RepositoryUpdate::delta_update')
    tus = b.calls('collector::rrdp::update::DeltaUpdate::try_update')
    uss = b.calls('collector::rrdp::archive::RrdpArchive::update_state')
    ctx.floor('K2', 'DeltaUpdate::try_update call', len(tus), 1)
    ctx.floor('K2', 'update_state call', len(uss), 1)
    for u in uss:
        ctx.check(not any(b.can_reach(u.bb, t.bb) for t in tus), 'K2', 'delta_update:no-delta-after-state', 'no delta is applied after the state was written',
                  'a delta can be applied after update_state', loc=u.loc())
        # update_state only when no delta failed: from the Err edge of try_update, update_state unreachable
        fe, fsw = G('delta failed', call='collector::rrdp::update::DeltaUpdate::try_update', labels={'Err', 'fail'}).edges(b)
        for (_s, t) in fe:
            ctx.check(u.bb not in b.reachable(t), 'K2', 'delta_update:failed-delta=>state-untouched', 'a failed delta never leads to update_state',
                      'update_state reachable after a failed delta', loc=u.loc())
        d = arg_desc(u, 1)
        ctx.check('to_repository_state(notify' in d.replace(' ', ''), 'prov', 'delta_update:state-from-notification', 'the state written is derived from the notification', 'state written: %s' % d)
    e, sw = G('Ok(update_state)', call='collector::rrdp::archive::RrdpArchive::update_state', labels=OKL).edges(b)
    n = 0
    for site, st in b.stmts():
        if st['s'] == 'assign' and st['lhs'] == [0] and st['rv']['r'] == 'agg' and st['rv'].get('variant') == 'Ok':
            if describe(b.origin_of_operand(st['rv']['ops'][0])) == 'Option::None()':
                n += 1
                ctx.check(bool(sw) and b.path_avoiding(site.bb, avoid_edges=e) is None, 'K2', 'delta_update:Ok(None)<=Ok(update_state)',
                          'success is reported only after the state was written', 'delta_update reports success without a written state', loc=site.loc())
    ctx.floor('K2', 'Ok(None) returns of delta_update', n, 1)
    # precondition checks happen before application
    for g in ('Notification::check_deltas', 'RepositoryUpdate::calc_deltas'):
        gs = b.calls(g)
        ctx.check(bool(gs) and all(b.site_dominates(gs[0], t) for t in tus), 'K2', 'delta_update:%s<try_update' % g.split('::')[-1],
                  '%s precedes applying deltas' % g, '%s does not precede delta application' % g)


def rule_object_ops(ctx):
    for m, inner in (('update_object', 'utils::archive::Archive::update'), ('delete_object', 'utils::archive::Archive::delete'),
                     ('publish_object', 'utils::archive::Archive::publish')):
        b = ctx.body('collector::rrdp::archive::RrdpArchive::' + m)
        n_ok = 0
        for p in enumerate_paths(b, ctx.facts):
            o = p.outcome
            succ = o.startswith('Result::Ok') or (o.startswith('call:') and inner.split('::')[-1] in o and '@Break' not in o)
            if o.startswith('Result::Ok') or 'Archive::' + inner.split('::')[-1] in o:
                n_ok += 1
                ctx.check(bool(p.called(inner)), 'K1', 'RrdpArchive::%s:Ok<=archive-op' % m,
                          'success of %s is the success of %s' % (m, inner),
                          'RrdpArchive::%s can report success on a path that never calls %s (outcome %s, conditions %s): trusting stored '
                          'metadata instead of rewriting would accept an object left half-written by a kill'
                          % (m, inner, o[:60], {k[:50]: sorted(v) for k, v in p.cond_map().items()}), loc=p.ret_site.loc() if p.ret_site else None)
        ctx.floor('K1', 'success paths of RrdpArchive::' + m, n_ok, 1)
    # the check closures compare the stored hash with the expected one
    for m in ('update_object', 'delete_object'):
        b = ctx.body('collector::rrdp::archive::RrdpArchive::' + m)
        cls = ctx.closures(b)
        ok = False
        for c in cls:
            for p in enumerate_paths(c, ctx.facts):
                cm = p.cond_map()
                eq = [(v, labs) for v, labs in cm.items() if v.startswith('cmp(') and 'hash' in v]
                if p.outcome.startswith('Result::Ok') and eq and eq[0][1] == {'Equal'} and 'upvar:hash' in eq[0][0].replace(' ', '') or (p.outcome.startswith('Result::Ok') and eq and eq[0][1] == {'Equal'}):
                    ok = True
                if p.outcome.startswith('Result::Ok') and not eq:
                    ok = False
                    break
        ctx.check(ok, 'K1', 'RrdpArchive::%s:check=hash-equal' % m, 'the precondition closure accepts only an equal stored hash', 'precondition closure of %s changed' % m)
    # archive: the check closure runs before the write
    for m, writer in (('update', 'write_object'), ('delete', 'delete_found')):
        bs = ctx.facts.find('utils::archive::Archive::' + m)
        if len(bs) != 1:
            ctx.bad('K1', 'anchor:Archive::' + m, 'anchor missing')
            continue
        b = bs[0]
        ctx.bodies.add(b.nid)
        chk = b.calls('re:FnOnce::call_once$') + b.calls('re:Fn(Mut)?::call(_mut)?$')
        ws = b.calls(['utils::archive::Archive::' + writer, 'utils::archive::Archive::write_object', 'utils::archive::Archive::delete_found', 'utils::archive::Archive::unlink_found'])
        e, sw = G('check passed', call=['re:FnOnce::call_once$', 're:Fn(Mut)?::call(_mut)?$'], labels=OKL).edges(b)
        ctx.floor('K1', 'mutating calls in Archive::' + m, len(ws), 1)
        for w in ws:
            ctx.check(bool(sw) and b.path_avoiding(w.bb, avoid_edges=e) is None, 'K1', 'Archive::%s:%s<=check-ok' % (m, w.callee.split('::')[-1]),
                      'the archive is mutated only after the metadata check passed', 'Archive::%s mutates before/without the check' % m, loc=w.loc())


def rule_snapshot(ctx):
    b = ctx.body('collector::rrdp::base::RepositoryUpdate::snapshot_update')
    rn = b.calls('std::fs::rename')
    ctx.floor('K1', 'rename in snapshot_update', len(rn), 1)
    require_guards(ctx, 'K1', b, rn + b.calls('std::fs::remove_file'), [G('Ok(SnapshotUpdate::try_update)', call='collector::rrdp::update::SnapshotUpdate::try_update', labels=OKL)],
                   'the old archive is only replaced by a completely verified new one')
    for r in rn:
        d0, d1 = arg_desc(r, 0), arg_desc(r, 1)
        ctx.check('temp_file' in d0 and 'self.path' in d1, 'prov', 'snapshot_update:rename(temp,final)', 'rename(temp file, final path)', 'rename(%s, %s)' % (d0, d1))
    for s in b.calls('collector::rrdp::archive::SnapshotRrdpArchive::create_with_file'):
        ctx.check('temp_file' in arg_desc(s, 1) or 'temp_file' in arg_desc(s, 0), 'prov', 'snapshot_update:archive-in-temp', 'the new archive is built in the temp file', 'archive created at %s' % arg_desc(s, 1))
    n = 0
    for s in ctx.facts.callers('std::fs::rename'):
        if s.body.nid.startswith('collector::rrdp::'):
            n += 1
            from lib.rules import effective_owners
            owners = effective_owners(ctx, s.body.nid)
            okr = all(o.endswith('RepositoryUpdate::snapshot_update') for o in owners)
            ctx.check(okr, 'K3', 'rrdp-rename<-%s' % (owners[0] if okr else s.body.nid), 'rename in snapshot_update', 'rename in %s' % s.body.nid, loc=s.loc())
    ctx.floor('K3', 'rename sites in collector::rrdp', n, 1)


ARCHIVE_ORDER = [
    # (body, first, then, why)
    ('utils::archive::Archive::publish_replace', 'utils::archive::Archive::unlink_empty', 'utils::archive::Archive::write_object',
     'the reused slot leaves the free list BEFORE it is overwritten (else a kill in between leaves a free-list entry whose header is the '
     'new object, pointing into a live bucket chain: later publishes overwrite live objects)'),
    ('utils::archive::Archive::publish_replace', 'utils::archive::Archive::write_object', 'utils::archive::Archive::set_index',
     'an object is linked into its hash bucket only after it has been written'),
    ('utils::archive::Archive::publish_append', 'utils::archive::Archive::write_object', 'utils::archive::Archive::set_index',
     'an object is linked into its hash bucket only after it has been written'),
    ('utils::archive::Archive::delete_found', 're:utils::archive::(ObjectHeader::update_next|Archive::set_index)$', 'utils::archive::Archive::create_empty',
     'an object is unlinked from its bucket chain before its space is put on the free list'),
]


def rule_archive_write_order(ctx):
    """Crash ordering inside the archive primitives (what a kill between two writes leaves behind must be safe)."""
    for bn, first, then, why in ARCHIVE_ORDER:
        b = ctx.body(bn)
        fs = b.calls(first)
        ts = b.calls(then)
        ctx.floor('K2', '%s: %s / %s' % (bn.split('::')[-1], first.split('::')[-1].rstrip('$)'), then.split('::')[-1]), min(len(fs), len(ts)), 1)
        for t in ts:
            nodes = {x.bb for x in fs}
            pth = b.path_avoiding(t.bb, avoid_nodes=nodes) if nodes else [0]
            back = [x for x in fs if b.can_reach(t.bb, x.bb) and x.bb != t.bb]
            ctx.check(pth is None and not back, 'K2', '%s:%s<%s' % (bn.split('::')[-1], first.split('::')[-1].rstrip('$)'), then.split('::')[-1]),
                      '%s: %s' % (bn.split('::')[-1], why.split(' (')[0]),
                      '%s calls %s before %s (or not on every path): %s' % (bn, then.split('::')[-1], first.split('::')[-1], why), loc=t.loc())


RULES = [rule_archive_write_order, rule_state_last, rule_object_ops, rule_snapshot]
