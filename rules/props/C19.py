"""C19 RTR listener keeps accepting after a failed connection setup (K10 poll contract)."""
from lib.facts import Site, norm
from lib.rules import G, fmt_path, agg_sites

from lib.tables import strip_suffix  # noqa: E402

META = dict(
    level='other',
    explanation=(
        'Poll-contract rule (K10) over <rtr::RtrListener as futures::Stream>::poll_next: every CFG path that returns '
        'Poll::Pending must pass an edge labelled Pending of a switch deciding on the result of a sub-poll made in this '
        'call (TcpListener::poll_accept, Future::poll of the backoff sleep) - only a sub-poll that returned Pending has '
        'registered the task\'s waker. A path that returns Pending after poll_accept returned Ready (e.g. after a failed '
        'RtrStream::new, or after merely creating a backoff Sleep) leaves the listener task asleep forever: no later '
        'connection is accepted. The rule is a must-pass-through check on the CFG, so it holds for every sequence of '
        'connection outcomes.'),
    decides='the whole property: no Pending without a registered waker on any path, incl. the setup-failure path',
    undecided='tokio poll_accept / Sleep register the waker when they return Pending (trusted)',
    trusted_base=['rustc MIR construction + callee resolution', 'tokio: a poll_* returning Pending has registered the waker'],
    rules=['K10 Pending only after a Pending sub-poll'],
)

POLLS = ['re:::poll_accept$', 're:Future(>)?::poll$', 're:::poll_next$', 're:::poll_[a-z_]+$']


def rule(ctx):
    b = ctx.body('<rtr::RtrListener as futures::Stream>::poll_next')
    polls = b.calls(POLLS)
    ctx.floor('K10', 'sub-polls in poll_next', len(polls), 2)
    e, sw = G('sub-poll returned Pending', call=POLLS, labels={'Pending'}).edges(b)
    ctx.floor('K10', 'switches on sub-poll results', len(sw), 2)
    from lib.tables import enumerate_paths
    import re
    paths = enumerate_paths(b, ctx.facts, max_visits=2)
    n_pend = 0
    poll_rx = re.compile(r'^call:[\w<>:, ]*(poll_accept|Future>?::poll|poll_next|::poll_[a-z_]+|::poll)\b')
    for p in paths:
        if p.kind != 'return' or not (p.outcome or '').startswith('Poll::Pending'):
            continue
        n_pend += 1
        ctx.call_sites += 1
        last = None
        for v, labs, _bb in p.conds:
            if poll_rx.match(strip_suffix(v)) and '@' not in v.split(')')[-1]:
                last = (v, labs)
        ok = last is not None and set(last[1]) == {'Pending'}
        ctx.check(ok, 'K10', 'RtrListener::poll_next:Pending<=pending-subpoll',
                  'Poll::Pending is returned right after a sub-poll returned Pending (%s)' % (last[0][:60] if last else None),
                  'Poll::Pending is returned at %s on a path whose most recent sub-poll was %s: e.g. after a failed '
                  'RtrStream::new or an accept error nothing has registered the waker, the listener task is never woken '
                  'and no further client is accepted' % (p.ret_site.loc() if p.ret_site else '?',
                                                         (last[0][:50], sorted(last[1])) if last else 'absent'),
                  loc=p.ret_site.loc() if p.ret_site else None,
                  path=' -> '.join('%s=%s' % (v[:40], '|'.join(sorted(l))) for v, l, _ in p.conds[-6:]))
        ctx.sample(dict(pending_return=p.ret_site.loc() if p.ret_site else None, last_subpoll=last[0][:80] if last else None,
                        result=sorted(last[1]) if last else None))
    ctx.floor('K10', 'paths returning Poll::Pending', n_pend, 2)
    # the setup-failure path exists and leads back to another poll (not to a return)
    fe, fsw = G('setup failed', call='rtr::RtrStream::new', labels={'Err'}).edges(b)
    ctx.floor('K10', 'switch on RtrStream::new result', len(fsw), 1)
    for (sb, tb) in fe:
        # from the failure edge, every return is reached only via a new sub-poll
        for r in b.returns():
            p = b.path_avoiding(r.bb, avoid_nodes=[x.bb for x in polls], start=tb)
            ctx.check(p is None, 'K10', 'RtrListener::poll_next:setup-failure=>polls-again',
                      'after a failed connection setup the listener polls again before returning',
                      'after a failed RtrStream::new the function returns without polling the listener again',
                      loc=Site(b, sb).loc(), path=fmt_path(b, p))
    # Ready(Some(Ok(stream))) only with a successfully set up stream
    oke, _ = G('setup ok', call='rtr::RtrStream::new', labels={'Ok'}).edges(b)
    for s in agg_sites(b, 'core::task::Poll', 'Ready') + agg_sites(b, 'std::task::Poll', 'Ready') + agg_sites(b, 'core::task::poll::Poll', 'Ready'):
        if s.stmt['lhs'] == [0]:
            ctx.check(b.path_avoiding(s.bb, avoid_edges=oke) is None, 'K10', 'RtrListener::poll_next:Ready<=setup-ok',
                      'a stream is yielded only after successful setup', 'a stream can be yielded without successful setup', loc=s.loc())


RULES = [rule]
