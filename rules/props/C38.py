"""C38 The object size limit is applied exactly as configured (zero-count typing rule, K3, K4)."""
import re
from lib.facts import norm, Site
from lib.rules import G, arg_desc, who_calls, arg_path, agg_sites, fmt_path
from lib.tables import enumerate_paths, describe

META = dict(
    level='other',
    explanation=(
        'Clauses. (1) Zero-count typing rule over the whole crate: no ordering comparison (PartialOrd::lt/le/gt/ge) is made on '
        'Option<u64> operands deriving from max_object_size - Option ordering treats None (limit disabled) as smaller than '
        'every Some(_), which turns "no limit" into "limit 0". A tiny positive example (selftest/positive/option_ord.rs) is '
        'pushed through the same detector on every run so the rule cannot pass vacuously. (2) K3 wiring: every '
        'LimitedDataRead::new receives config().max_object_size, RRDP config copies config.max_object_size, both config '
        'readers map 0 to None, rsync gets --max-size only when the limit is Some. (3) K4 on LimitedDataRead::read over the '
        'abstract domain left in {None, Some}: with None every read passes through unchanged; with Some(left) the read is '
        'refused iff res > left, otherwise left decreases by res; no path answers a non-empty underlying read with Ok(0) '
        '(which read_to_end takes for EOF and would truncate the object silently); the error recorded is LargeObject. '
        '(4) load_ta compares Content-Length with the limit only when both are Some and with `>`.'),
    decides='limit semantics for disabled / at / above limit on every path of the reader and the TA download',
    undecided='reqwest Content-Length reporting; rsync --max-size behaviour',
    trusted_base=['rustc MIR construction + callee resolution'],
    rules=['zero-count Option ordering', 'K3 limit wiring', 'K4 LimitedDataRead::read', 'K4 load_ta pre-check'],
)


def option_orderings(facts):
    out = []
    for s in facts.callers('re:PartialOrd(<.*>)?>?::(lt|le|gt|ge)$'):
        st = s.term['fn'].get('self') or ''
        full = s.term['fn'].get('full') or ''
        if 'Option<' in st or 'Option<' in full.split(' as ')[0]:
            out.append(s)
    return out


def rule_option_order(ctx):
    sites = option_orderings(ctx.facts)
    n = 0
    for s in sites:
        d = ' '.join(arg_desc(s, i) for i in range(len(s.term['args'])))
        if 'max_object_size' in d or 'content_length' in d:
            n += 1
            ctx.bad('typing', 'option-ordering:%s' % s.body.nid,
                    'the size limit is compared as Option<_> with an ordering operator in %s (%s): None (limit disabled) orders below '
                    'every Some(n), so with the limit disabled every object with a known length is "larger than the limit"'
                    % (s.body.nid, d[:120]), loc=s.loc())
    ctx.ok('typing', 'option-ordering:scan', 'scanned %d ordering comparisons on Option operands in the crate; %d involve the size limit' % (len(sites), n))
    ctx.extra['option_ordering_sites_in_crate'] = [dict(body=s.body.nid, at=s.loc()) for s in sites]
    # positive example: the detector must recognise Option ordering
    ok = ctx.positive is not None and len(option_orderings(ctx.positive)) >= 1
    ctx.check(ok, 'typing', 'option-ordering:positive-example', 'the detector fires on the positive example (Option<u64> > Option<u64>)',
              'the positive example for the Option-ordering detector is missing or not detected: the zero-count rule would pass vacuously')


def rule_wiring(ctx):
    n = 0
    for s in ctx.facts.callers('collector::rrdp::http::LimitedDataRead::new'):
        n += 1
        d = arg_desc(s, 2)
        ctx.check(d.endswith('.max_object_size'), 'K3', 'LimitedDataRead::new:limit<-%s' % s.body.nid, 'limit = config().max_object_size',
                  'LimitedDataRead::new in %s gets the limit `%s`' % (s.body.nid, d), loc=s.loc())
    ctx.floor('K3', 'LimitedDataRead::new call sites', n, 3)
    nb = ctx.body('collector::rrdp::http::LimitedDataRead::new')
    for l in agg_sites(nb, 'collector::rrdp::http::LimitedDataRead'):
        rv = l.stmt['rv']
        d = describe(nb.origin_of_operand(rv['ops'][rv['names'].index('left')]))
        ctx.check(d == 'max_size', 'K3', 'LimitedDataRead::new:left=max_size', 'left starts as the limit', 'left starts as %s' % d)
    # config: 0 -> None in both readers
    for bpat in ('config::Config::apply_arg_matches', 'config::Config::from_config_file'):
        pass
    found = 0
    for b in ctx.facts.all_bodies():
        if not b.file.endswith('src/config.rs') or b.rec.get('derive'):
            continue
        for site, s in b.stmts():
            if s['s'] != 'assign':
                continue
            tgt = s['lhs'][-1] if len(s['lhs']) > 1 else None
            rv = s['rv']
            if tgt == '.max_object_size' or (rv['r'] == 'agg' and 'names' in rv and 'max_object_size' in rv['names'] and norm(rv.get('adt') or '').endswith('config::Config')):
                found += 1
    ctx.floor('K3', 'writes of Config.max_object_size', found, 2)
    for bpat, what in (('config::Config::apply_server_args', None),):
        pass
    # zero maps to None: enumerate paths of the two readers is too heavy; check the local shape instead
    for b in ctx.facts.all_bodies():
        if b.nid not in ('config::Config::apply_arg_matches', 'config::Config::apply_args', 'config::Config::from_config_file') and 'max_object_size' not in ''.join(d['name'] for d in b.rec['debug']):
            continue
    cfg = [b for b in ctx.facts.all_bodies() if b.file.endswith('src/config.rs') and not b.rec.get('derive')]
    zero_to_none = 0
    for b in cfg:
        for sbb in b.switches():
            o, edges = b.switch_edges(sbb)
            from lib.tables import order_edges
            oe = order_edges(o, edges)
            p = o.path()
            if (oe and 'max_object_size' in oe[0] and 'const(0)' in oe[0]) or ('max-object-size' in p and b.blocks[sbb]['term'].get('dty') in ('u64',)):
                zero_to_none += 1
    ctx.check(zero_to_none >= 1, 'K3', 'config:zero-tested', 'the value 0 is special-cased when reading max-object-size (%d sites)' % zero_to_none,
              'no reader special-cases max-object-size = 0')
    rs = ctx.body('collector::rsync::RsyncCommand::new')
    ok = False
    for sbb in rs.switches():
        o, edges = rs.switch_edges(sbb)
        if o.path().endswith('.max_object_size') and any(l == {'Some'} for l in edges.values()):
            ok = True
    ctx.check(ok, 'K3', 'rsync:max-size-only-if-Some', 'rsync --max-size only with a limit', 'rsync max-size not conditional on the limit')
    # ... and ALWAYS with a limit: on the default-argument branch, once config.max_object_size is Some, every path to the
    # end of the argument list pushes `--max-size=<limit>` (no further condition, e.g. a probe of `rsync -h`)
    pushes = []
    for s in rs.calls('re:Vec.*::push$'):
        d = arg_desc(s, 1)
        if '--max-size=' in d:
            oo = rs.origin_of_operand(s.term['args'][1])
            ok_arg = any('max_object_size@Some.0' in arg_desc(c.site, i) for c in oo.calls() for i in range(len(c.site.term['args'])))
            ctx.check(ok_arg, 'prov', 'rsync:max-size-value', '--max-size carries the configured limit', '--max-size is built from `%s`' % d[:120], loc=s.loc())
            pushes.append(s)
    ctx.floor('K1', '--max-size push in RsyncCommand::new', len(pushes), 1)
    n_edges = 0
    for sbb in rs.switches():
        o, edges = rs.switch_edges(sbb)
        if not o.path().endswith('.max_object_size'):
            continue
        for tb, labs in edges.items():
            if labs != {'Some'}:
                continue
            n_edges += 1
            for r in rs.returns():
                p = rs.path_avoiding(r.bb, avoid_nodes=[x.bb for x in pushes], start=tb)
                ctx.check(p is None, 'K1', 'rsync:limit-set=>max-size-passed', 'with a limit every path passes --max-size to rsync',
                          'RsyncCommand::new has a path on which a limit is configured but `--max-size` is not passed to rsync '
                          '(objects fetched over rsync are then not limited)', loc=Site(rs, sbb).loc(), path=fmt_path(rs, p) if p else None)
    ctx.floor('K1', 'Some edge of config.max_object_size in RsyncCommand::new', n_edges, 1)


def rule_read(ctx):
    b = ctx.body('<collector::rrdp::http::LimitedDataRead as std::io::Read>::read')
    paths = enumerate_paths(b, ctx.facts)
    seen = set()
    for p in paths:
        cm = p.cond_map()
        rd = [labs for v, labs in cm.items() if re.match(r'^call:Read::read\(|^call:.*::read\(self\.reader', v) and '@' not in v.split(')')[-1]]
        left = [labs for v, labs in cm.items() if v == 'self.left']
        cmpv = [(v, labs) for v, labs in cm.items() if v.startswith('cmp(') and 'left' in v]
        conv = [labs for v, labs in cm.items() if 'try_from' in v]
        o = p.outcome
        stores = {fld: desc for (_k, (fld, desc)) in sorted(p.field_stores.items())}
        inner_read = bool(p.called('re:Read>?::read$'))
        if not inner_read:
            ctx.bad('K4', 'read:answers-without-reading',
                    'LimitedDataRead::read has a path that returns `%s` without reading from the wrapped reader (conditions %s): '
                    'returning Ok(0) is an end-of-file to read_to_end, so an object that is too large would be cut at the limit and '
                    'accepted' % (o, {k: sorted(v) for k, v in cm.items()}), loc=p.ret_site.loc() if p.ret_site else None)
            continue
        if rd and rd[0] == {'Err'}:
            seen.add('io-error')
            ctx.check(o.startswith('Result::Err'), 'K4', 'read:underlying-error=>Err', 'I/O errors propagate', 'I/O error -> %s' % o)
            continue
        if left and left[0] == {'None'}:
            seen.add('unlimited')
            ctx.check(bool(re.match(r'^Result::Ok\(call:.*read.*@Ok\.0\)$', o)) and 'left' not in stores, 'K4', 'read:no-limit=>passthrough',
                      'without a limit the result of the wrapped reader is returned unchanged', 'without a limit read returns %s (stores %s)' % (o, stores))
            continue
        if left and left[0] == {'Some'}:
            if conv and conv[0] == {'Err'}:
                seen.add('usize-overflow')
                ctx.check(o.startswith('Result::Err') and 'LargeObject' in stores.get('err', ''), 'K4', 'read:size-not-u64=>LargeObject', 'refused', '-> %s' % o)
                continue
            if not cmpv:
                ctx.bad('K4', 'read:limit-not-compared', 'with a limit set a path returns %s without comparing the bytes read with what is left' % o)
                continue
            v, labs = cmpv[0]
            first_is_res = v.index('try_from') < v.index('left') if 'try_from' in v else True
            over = (labs == {'Greater'}) if first_is_res else (labs == {'Less'})
            within = (labs == {'Equal', 'Less'}) if first_is_res else (labs == {'Equal', 'Greater'})
            if over:
                seen.add('over')
                ctx.check(o.startswith('Result::Err') and 'LargeObject' in stores.get('err', ''), 'K4', 'read:res>left=>LargeObject',
                          'more than what is left: refused with LargeObject', 'res > left -> %s, err=%s' % (o, stores.get('err')))
            elif within:
                seen.add('within')
                ctx.check(o.startswith('Result::Ok(') and 'Sub' in stores.get('left', ''), 'K4', 'read:res<=left=>Ok,left-=res',
                          'up to the limit: accepted and left reduced', 'res <= left -> %s, left=%s' % (o, stores.get('left')))
            else:
                ctx.bad('K4', 'read:limit-relation', 'limit comparison accepts %s (expected `res > left` refused / `res <= left` accepted)' % sorted(labs))
    ctx.check({'unlimited', 'over', 'within', 'io-error'} <= seen, 'K4', 'read:all-rows', 'all rows present', 'rows: %s' % sorted(seen))
    for r in sorted(seen):
        ctx.sample(dict(row=r))


def rule_load_ta(ctx):
    b = ctx.body('collector::rrdp::base::Run::load_ta')
    for p in enumerate_paths(b, ctx.facts):
        cm = p.cond_map()
        cl = [labs for v, labs in cm.items() if 'content_length' in v and not v.startswith('cmp(')]
        lim = [labs for v, labs in cm.items() if v.endswith('max_object_size') or 'max_object_size' in v and not v.startswith('cmp(')]
        cmpv = [(v, labs) for v, labs in cm.items() if v.startswith('cmp(') and 'content_length' in v]
        refused_early = p.outcome == 'Option::None()' and not p.called('collector::rrdp::http::LimitedDataRead::new') and p.called('HttpResponse::content_length')
        if refused_early:
            ok = bool(cmpv) and all('Some' in str(cl) and 'Some' in str(lim) for _ in [0])
            v, labs = cmpv[0] if cmpv else ('', set())
            gt = labs in ({'Greater'}, {'Less'})
            ctx.check(ok and gt, 'K4', 'load_ta:early-refusal<=len>limit',
                      'a TA download is refused up front only if both Content-Length and the limit are known and length > limit',
                      'load_ta refuses a download under %s' % {k: sorted(x) for k, x in cm.items()}, loc=p.ret_site.loc() if p.ret_site else None)
    n = len(b.calls('collector::rrdp::http::LimitedDataRead::new'))
    ctx.floor('K4', 'streaming limit in load_ta', n, 1)


def rule_zero_disables(ctx):
    """`max-object-size = 0` (config file) and `--max-object-size 0` (command line) mean "no limit" (None)."""
    from props.C35 import reader_table, zero_guard_store
    rt = reader_table(ctx)
    if rt is None:
        return
    rb, reader = rt
    r = reader.get('max_object_size')
    ctx.check(r is not None and r['zero_none'], 'K4', 'config-file:max-object-size=0=>None',
              'the config file reader maps max-object-size = 0 to None (limit disabled)',
              'Config::from_config_file no longer maps `max-object-size = 0` to None (%s): an operator who disabled the limit gets '
              'the default limit, and larger objects are refused' % (r['desc'][:120] if r else 'field not read'),
              loc='%s:%d' % (rb.file, rb.line))
    b = ctx.body('config::Config::apply_arg_matches')
    ctx.check(zero_guard_store(b, 'max_object_size', 'max_object_size'), 'K4', 'command-line:max-object-size=0=>None',
              'the command line maps --max-object-size 0 to None', 'the command line stores Some(0) (or a default) for --max-object-size 0',
              loc='%s:%d' % (b.file, b.line))



def rule_ta_download(ctx):
    """HTTPS trust anchor download (collector::rrdp::base::Run::load_ta): data is returned only when the limited reader
    delivered the whole body; when read_to_end fails - LimitedDataRead reports LargeObject once the limit is crossed, or
    the transfer breaks - nothing is returned (a body cut at the limit is not an object of at most L bytes)."""
    b = ctx.body('collector::rrdp::base::Run::load_ta')
    n_err = n_ok = 0
    for p in enumerate_paths(b, ctx.facts):
        if p.kind != 'return':
            continue
        rd = [set(l) for v, l in p.cond_map().items() if re.search(r'Read::read_to_end\(|Read::read_exact\(|io::copy\(', v)]
        o = p.outcome or ''
        if rd and rd[-1] <= {'Err', 'fail'}:
            n_err += 1
            ctx.check(o == 'Option::None()', 'K4', 'load_ta:read-failed=>None', 'a failed / over-limit download yields no certificate',
                      'Run::load_ta returns `%s` although reading the body failed: when the response has no Content-Length and the '
                      'body is larger than the limit, LimitedDataRead stops with LargeObject and the bytes read so far (cut at the '
                      'limit) are handed on as the trust anchor certificate instead of refusing the object' % o,
                      loc=p.ret_site.loc() if p.ret_site else None)
        elif o.startswith('Option::Some('):
            n_ok += 1
            ctx.check(bool(rd) and rd[-1] <= {'Ok', 'pass'}, 'K4', 'load_ta:Some<=read-complete', 'data only after a complete read',
                      'Run::load_ta returns data on a path that did not read the body to the end')
    ctx.floor('K4', 'failed-read paths of rrdp load_ta', n_err, 1)
    ctx.floor('K4', 'data-returning paths of rrdp load_ta', n_ok, 1)
    for s in b.calls('collector::rrdp::http::LimitedDataRead::new'):
        d = arg_desc(s, 2)
        ctx.check('max_object_size' in d, 'prov', 'load_ta:reader-limit', 'the body is read through LimitedDataRead(limit = max_object_size)',
                  'the TA body is read with limit `%s`' % d, loc=s.loc())
    ctx.floor('K1', 'LimitedDataRead::new in rrdp load_ta', len(b.calls('collector::rrdp::http::LimitedDataRead::new')), 1)

RULES = [rule_zero_disables, rule_option_order, rule_wiring, rule_read, rule_load_ta, rule_ta_download]
