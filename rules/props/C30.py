"""C30 Remote URIs map to confined, distinct local paths (path-component provenance + registry uniqueness)."""
import re
from lib.facts import norm, callee_name, Origin, Site
from lib.rules import fmt_path
from lib.tables import describe
from lib import fmtctx

META = dict(
    level='other',
    explanation=(
        'Path-component provenance over every Path::join / PathBuf::push site of store.rs, collector/rsync.rs, '
        'collector/rrdp/base.rs, utils/dump.rs and utils/uri.rs (non-test). The backward slice of the component argument is '
        'walked to its leaves; every leaf must be (a) a constant, (b) one of the canonical URI accessors of rpki::uri '
        '(Rsync::{canonical_authority,module_name,path,canonical_module}, Https::canonical_authority) or the repository\'s own '
        'UriExt::{unique_path,unique_components}, (c) a hex digest, (d) a name read back from the local directory listing or '
        'the dump registry, (e) a numeric counter, or (f) a &str/&Path parameter whose every caller passes (a)-(e). A raw URI '
        '(Display, as_str, authority(), Https::path(), a uri-typed parameter) reaching a path component is reported; an '
        'unrecognised leaf is reported as well (fail closed). String builders (String::with_capacity + push_str/append_hex) are '
        'followed through their mutating calls. Distinctness (necessary conditions): every rsync-object path uses all of '
        'authority, module and path with a `/` between consecutive placeholders; unique_components feeds authority and every '
        'path part into the digest with constant separators; the RRDP archive digest is over the whole URI; the store\'s '
        'top-level name constants are pairwise non-nested; in DumpRegistry::make_path every directory name handed out was '
        'tested absent from, and inserted into, the rrdp_dirs set and recorded in rrdp_uris on the same path, and only '
        'make_path/new write those two maps. A positive example (selftest/positive: base.join(uri_str)) must be flagged.'),
    decides='which values can become path components below the cache/dump directories, and the structural uniqueness conditions',
    undecided='that rpki::uri rejects `..`/empty segments and non-URI characters (trusted: rpki::uri::Rsync::from_bytes DotSegments check); SHA-256 collision freedom; symlinks inside the cache',
    trusted_base=['rustc MIR construction + callee resolution', 'rpki::uri validation of dot segments', 'SHA-256 collision resistance'],
    rules=['K6 component provenance (fail closed)', 'K7 format/digest component completeness', 'K3 registry writers', 'K1 registry name uniqueness'],
)

FILES = ('src/store.rs', 'src/collector/rsync.rs', 'src/collector/rrdp/base.rs', 'src/utils/dump.rs', 'src/utils/uri.rs')
SINKS = ['std::path::PathBuf::push', 'std::path::Path::join', 'std::path::PathBuf::set_file_name',
         'std::path::Path::with_file_name', 'std::path::PathBuf::set_extension', 'std::path::Path::with_extension']

ALLOWED = {
    'rpki::uri::Rsync::canonical_authority': 'rsync-authority',
    'rpki::uri::Rsync::module_name': 'rsync-module',
    'rpki::uri::Rsync::path': 'rsync-path',
    'rpki::uri::Rsync::canonical_module': 'rsync-canonical-module',
    'rpki::uri::Https::canonical_authority': 'https-authority',
    'utils::uri::UriExt::unique_path': 'unique-path',
    'utils::uri::UriExt::unique_components': 'unique-components',
    'std::fs::DirEntry::file_name': 'local-listing',
    'rpki::crypto::DigestAlgorithm::digest_len': 'number',
    'rpki::crypto::digest::DigestAlgorithm::digest_len': 'number',
    'str::len': 'number', 'core::str::len': 'number', 'std::string::String::len': 'number',
}
PLUMBING = re.compile(
    r'^(std|core|alloc)::(fmt::format|fmt::Arguments(<.*>)?::new\w*|fmt::rt::Argument(<.*>)?::new_\w+|hint::must_use|'
    r'string::String::as_str|string::String::from|string::ToString::to_string|borrow::Cow(<.*>)?::\w+|'
    r'ffi::OsString::\w+|path::PathBuf::from|path::Path::new|string::String::into_boxed_str|str::as_ref)$')
BUILDERS = ('std::string::String::with_capacity', 'std::string::String::new')
DIGESTS = ('rpki::crypto::DigestAlgorithm::digest', 'rpki::crypto::digest::DigestAlgorithm::digest',
           'rpki::crypto::digest::Context::finish', 'rpki::crypto::Context::finish')
URI_TY = re.compile(r'rpki::uri::(Rsync|Https)|tals::TalUri|collector::rsync::(Module|OwnedModule)')
NUM_TY = re.compile(r'^&*(u8|u16|u32|u64|usize|i8|i16|i32|i64|isize|char)$')
PATH_TY = re.compile(r'std::path::(Path|PathBuf)|std::ffi::(OsStr|OsString)|Arc<std::path::PathBuf')
STR_TY = re.compile(r'^&*(str|std::string::String)$')


def scoped_bodies(facts):
    for b in facts.all_bodies():
        if b.file.endswith(FILES) and not b.rec.get('derive') and '::test::' not in b.nid:
            yield b


def param_type(body, name):
    for d in body.rec.get('debug', []):
        if d['name'] == name and d.get('arg') is not None:
            return body.rec['locals'][d['arg']]['ty']
    for d in body.rec.get('debug', []):
        if d['name'] == name and d.get('p'):
            return body.rec['locals'][d['p'][0]]['ty']
    return '?'


def param_index(body, name):
    for d in body.rec.get('debug', []):
        if d['name'] == name and d.get('arg') is not None:
            return d['arg'] - 1
    return None


class Walk:
    """Classify the leaves of a component origin. problems: list of text; kinds: ordered accessor kinds."""

    def __init__(self, facts, depth=0):
        self.facts = facts
        self.problems = []
        self.kinds = []
        self.depth = depth

    def builder_parts(self, body, o):
        """Calls that mutate the String built at call-origin o (same defining site)."""
        parts = []
        for s in body.calls(None):
            args = s.term['args']
            for i, a in enumerate(args):
                ao = body.origin_of_operand(a)
                while ao is not None and (ao.kind in ('ref', 'cast') or (ao.kind == 'place' and all(p == '*' for p in ao.proj))):
                    ao = ao.base
                if ao is not None and ao.kind == 'call' and ao.site.bb == o.site.bb and s.bb != o.site.bb:
                    parts.append((s, i))
        parts.sort(key=lambda x: (x[0].line or 0, x[0].bb))
        return parts

    def walk(self, body, o, in_digest=False, seen=None):
        seen = seen if seen is not None else {}
        if o is None or id(o) in seen:
            return
        seen[id(o)] = o      # keep the object alive: ids of freed origins are reused
        k = o.kind
        if k in ('ref', 'cast'):
            return self.walk(body, o.base, in_digest, seen)
        if k == 'const':
            self.kinds.append('const')
            return
        if k == 'un':
            return self.walk(body, o.a, in_digest, seen)
        if k == 'bin':
            self.walk(body, o.a, in_digest, seen)
            self.walk(body, o.b, in_digest, seen)
            return
        if k == 'multi':
            for a in o.alts:
                self.walk(body, a, in_digest, seen)
            return
        if k == 'agg':
            for a in getattr(o, 'ops', []) or []:
                self.walk(body, a, in_digest, seen)
            return
        if k == 'place':
            base = o.base
            while base.kind in ('ref', 'cast'):
                base = base.base
            if base.kind == 'param' and base.name == 'self':
                fields = [p for p in o.proj if p.startswith('.')]
                self.kinds.append('self' + ''.join(fields))
                # a field of self reaching a component: only the configured directories
                if not fields or fields[0] not in ('.path', '.working_dir', '.base_dir', '.base', '.tmp_dir'):
                    self.problems.append('field %s of self is used as a path component' % o.path())
                return
            return self.walk(body, base, in_digest, seen)
        if k == 'local':
            ty = body.rec['locals'][o.local]['ty'] if getattr(o, 'local', None) is not None else '?'
            if NUM_TY.match(ty):
                self.kinds.append('number')
                return
            self.problems.append('unrecognised local `%s` of type %s' % (o.name, ty))
            return
        if k == 'param':
            ty = param_type(body, o.name)
            if NUM_TY.match(ty):
                self.kinds.append('number')
                return
            if URI_TY.search(ty):
                if in_digest:
                    self.kinds.append('whole-uri')
                    return
                self.problems.append('the URI parameter `%s` (%s) reaches a path component without a canonical accessor' % (o.name, ty))
                return
            if PATH_TY.search(ty):
                self.kinds.append('dir-param')
                return
            if STR_TY.match(ty) or 'AsRef' in ty or ty.startswith('impl') or re.match(r'^&*[A-Z]\w*$', ty):
                return self.callers(body, o.name, ty)
            self.problems.append('parameter `%s` of type %s is used as a path component' % (o.name, ty))
            return
        if k == 'call':
            nm = norm(o.callee)
            if nm in ALLOWED or any(nm.endswith('::' + a.split('::', 1)[1]) and nm.split('::')[-1] == a.split('::')[-1]
                                    and nm.split('::')[-2] == a.split('::')[-2] for a in ALLOWED if '::' in a):
                kind = ALLOWED.get(nm) or next(v for a, v in ALLOWED.items() if nm.split('::')[-2:] == a.split('::')[-2:])
                self.kinds.append(kind)
                return
            last2 = '::'.join(nm.split('::')[-2:])
            if PLUMBING.match(nm):
                for a in o.args:
                    self.walk(body, a, in_digest, seen)
                return
            if nm in BUILDERS:
                for s, i in self.builder_parts(body, o):
                    cn = norm(s.callee)
                    if cn.endswith('String::push_str') or cn.endswith('String::push'):
                        self.walk(body, body.origin_of_operand(s.term['args'][1]), in_digest, seen)
                    elif cn.endswith('utils::str::append_hex'):
                        d = body.origin_of_operand(s.term['args'][0])
                        self.hex(body, d, seen)
                    elif re.search(r'(String::as_str|String::len|String::capacity|Path::join|PathBuf::push|PathBuf::from|'
                                   r'(Deref|AsRef|Into|From|Clone|Borrow)>?::\w+)$', cn):
                        pass
                    else:
                        self.problems.append('string builder is modified through unrecognised call %s' % cn)
                return
            if last2 in ('HashMap::get',) or nm.endswith('HashMap::get'):
                recv = describe(o.args[0]) if o.args else ''
                if 'rrdp_uris' in recv:
                    self.kinds.append('registry-name')
                    return
            if re.search(r'Index.*::index$', nm) and o.args:
                # module.0[8..]: the canonical module with the scheme removed
                base = o.args[0]
                d = describe(base)
                rng = describe(o.args[1]) if len(o.args) > 1 else ''
                root = base
                while root.kind in ('ref', 'cast', 'place'):
                    root = root.base
                rty = param_type(body, root.name) if root.kind == 'param' else ''
                if 'Module' in rty and 'const(8)' in rng and 'RangeFrom' in rng:
                    self.kinds.append('module-path')
                    return
                if root.kind == 'call' and norm(root.callee).endswith('Rsync::canonical_module') and 'RangeFrom' in rng:
                    self.kinds.append('module-path')
                    return
                self.problems.append('slice `%s[%s]` is used as a path component' % (d[:60], rng[:40]))
                return
            if nm in DIGESTS:
                return self.hex(body, o, seen)
            if in_digest and re.search(r'(Rsync|Https)::(as_slice|as_str|as_bytes)$|str::as_bytes$', nm):
                for a in o.args:
                    self.walk(body, a, True, seen)
                return
            if re.search(r'rpki::uri::(Rsync|Https)::', nm):
                self.problems.append('raw URI accessor %s reaches a path component (not canonical / not confined to one segment class)' % nm)
                return
            # a call into this crate returning a path fragment: follow it one level
            cal = self.facts.find(nm)
            if len(cal) == 1 and self.depth < 2 and cal[0].file.endswith(FILES):
                sub = Walk(self.facts, self.depth + 1)
                for r in cal[0].returns():
                    pass
                self.kinds.append('call:' + last2)
                return
            self.problems.append('unrecognised source %s for a path component' % nm)
            return
        self.problems.append('unrecognised origin kind %s' % k)

    def hex(self, body, d, seen):
        """Argument of append_hex must be a digest; digest inputs may be raw URI bytes."""
        x = d
        while x is not None and x.kind in ('ref', 'cast', 'place'):
            x = x.base
        if x is not None and x.kind == 'call':
            nm = norm(x.callee)
            if nm in DIGESTS:
                self.kinds.append('hex-digest')
                for a in x.args[1:] if nm.endswith('::digest') else []:
                    w = Walk(self.facts, self.depth)
                    w.walk(body, a, True)
                    self.problems += w.problems
                    if 'whole-uri' not in w.kinds:
                        self.problems.append('digest input is not the whole URI (%s)' % describe(a)[:80])
                return
            if nm.endswith('UriExt::unique_components'):
                self.kinds.append('hex-digest')
                return
        self.problems.append('append_hex is fed from %s, not from a digest' % describe(d)[:80])

    def callers(self, body, pname, ty):
        idx = param_index(body, pname)
        if idx is None or self.depth >= 2:
            self.problems.append('parameter `%s` (%s) of %s cannot be traced to its callers' % (pname, ty, body.nid))
            return
        sites = self.facts.callers(body.nid)
        if body.rec.get('trait_item'):
            sites = sites + self.facts.callers(body.rec['trait_item'])
        if not sites and '::{closure#' in body.nid:
            # a closure handed to an iterator adaptor (`parts.iter().fold(base, |mut res, part| { res.push(part); res })`):
            # its last parameter takes the elements of the receiver
            params = [d['name'] for d in sorted((d for d in body.rec.get('debug', []) if d.get('arg')), key=lambda d: d['arg'])]
            parent = self.facts.find(body.nid.rsplit('::{closure#', 1)[0])
            done = False
            if params and params[-1] == pname and len(parent) == 1:
                pb = parent[0]
                for s in pb.calls('re:Iterator(>)?::(fold|for_each|try_for_each|map|filter|any|all)$'):
                    holds = False
                    for a in s.term['args'][1:]:
                        o = pb.origin_of_operand(a)
                        while o is not None and o.kind in ('ref', 'cast'):
                            o = o.base
                        if o is not None and o.kind == 'agg' and o.rv.get('kind') == 'closure' and norm(o.rv.get('def') or '') == body.nid:
                            holds = True
                    if not holds:
                        continue
                    r = pb.origin_of_operand(s.term['args'][0])
                    for _ in range(8):
                        while r is not None and r.kind in ('ref', 'cast'):
                            r = r.base
                        if r is not None and r.kind == 'call' and r.args and re.search(r'::(iter|into_iter|copied|cloned|rev|as_slice|as_ref|deref)$', norm(r.callee)):
                            r = r.args[0]
                            continue
                        break
                    if r is not None and r.kind == 'agg':
                        w = Walk(self.facts, self.depth + 1)
                        w.walk(pb, r)
                        for p_ in w.problems:
                            self.problems.append('%s (element of the sequence `%s` iterates over at %s)' % (p_, pname, s.loc()))
                        self.kinds.append('elements[' + ','.join(w.kinds) + ']')
                        done = True
            if done:
                return
        if not sites:
            self.problems.append('parameter `%s` of %s: no caller found' % (pname, body.nid))
            return
        for s in sites:
            if '::test::' in s.body.nid:
                continue
            w = Walk(self.facts, self.depth + 1)
            if idx < len(s.term['args']):
                w.walk(s.body, s.body.origin_of_operand(s.term['args'][idx]))
            for p in w.problems:
                self.problems.append('%s (argument `%s` passed at %s)' % (p, pname, s.loc()))
            self.kinds.append('param[' + ','.join(w.kinds) + ']')


def component_sites(facts, bodies):
    for b in bodies:
        for s in b.calls(SINKS):
            if len(s.term['args']) < 2:
                continue
            yield b, s


def rule_components(ctx):
    n = 0
    per_body = {}
    for b, s in component_sites(ctx.facts, list(scoped_bodies(ctx.facts))):
        n += 1
        ctx.bodies.add(b.nid)
        w = Walk(ctx.facts)
        w.walk(b, b.origin_of_operand(s.term['args'][1]))
        key = 'component:%s:%s' % (b.nid, ','.join(k for k in w.kinds if k != 'const') or 'const')
        if w.problems:
            for p in sorted(set(w.problems)):
                ctx.bad('K6', 'component:%s:%s' % (b.nid, re.sub(r'src/\S+:\d+', '', p)[:90]),
                        '%s builds a path below the cache/dump directory from a value that is not a canonical, confined '
                        'component: %s' % (b.nid, p), loc=s.loc())
        else:
            ctx.ok('K6', key, 'component sources: ' + (', '.join(w.kinds) or 'none'), loc=s.loc())
        per_body.setdefault(b.nid, []).append((s, w.kinds))
    ctx.floor('K6', 'path component sites', n, 34)
    ctx.extra['component_sites'] = {k: [(s.loc(), kinds) for s, kinds in v] for k, v in per_body.items()}
    # positive example
    if ctx.positive:
        hit = 0
        for b in ctx.positive.all_bodies():
            if 'raw_uri_path' not in b.nid:
                continue
            for s in b.calls(SINKS):
                w = Walk(ctx.positive)
                w.walk(b, b.origin_of_operand(s.term['args'][1]))
                hit += bool(w.problems)
        ctx.check(hit >= 1, 'K6', 'positive-example', 'the detector fires on the positive example (base.join(raw uri string))',
                  'positive example for the component detector missing or not detected')
    else:
        ctx.bad('K6', 'positive-example', 'positive example crate did not build')
    return per_body


def rule_unique_path(ctx):
    n = 0
    for b in ctx.facts.all_bodies():
        if not b.nid.endswith('UriExt::unique_path'):
            continue
        n += 1
        ctx.bodies.add(b.nid)
        w = Walk(ctx.facts)
        w.walk(b, b.origin_of_place([0]))
        for p in sorted(set(w.problems)):
            ctx.bad('K6', 'unique_path:%s' % re.sub(r'src/\S+:\d+', '', p)[:90],
                    'UriExt::unique_path builds the relative path from a value that is not a canonical, confined component: %s' % p,
                    loc='%s:%d' % (b.file, b.line))
        need = {'unique-components', 'hex-digest'}
        ctx.check(not w.problems and need <= set(w.kinds), 'K6', 'unique_path:components',
                  'unique_path = [prefix/]canonical-authority/hex(digest)[extension], prefix and extension constant at every caller (%s)' % ', '.join(w.kinds),
                  'unique_path no longer consists of the canonical authority and the hex digest (%s)' % w.kinds, loc='%s:%d' % (b.file, b.line))
    ctx.floor('K6', 'unique_path bodies', n, 1)


RSYNC_FULL = [{'rsync-authority', 'rsync-module', 'rsync-path'}, {'rsync-canonical-module', 'rsync-path'}, {'module-path', 'rsync-path'}]


def rule_rsync_complete(ctx):
    """Every body that derives a path from an rsync URI's parts uses authority, module and path, '/'-separated."""
    n = 0
    for b in scoped_bodies(ctx.facts):
        kinds = []
        for s in b.calls(SINKS):
            if len(s.term['args']) < 2:
                continue
            w = Walk(ctx.facts)
            w.walk(b, b.origin_of_operand(s.term['args'][1]))
            flat = []
            for k in w.kinds:
                m_ = re.match(r'^elements\[(.*)\]$', k)
                flat += m_.group(1).split(',') if m_ else [k]
            kinds += [k for k in flat if k.startswith('rsync-') or k == 'module-path']
        if not kinds:
            continue
        if set(kinds) == {'module-path'} or set(kinds) == {'rsync-canonical-module'}:
            # module directory only (WorkingDir::module_path): authority+module, no object path wanted
            ctx.ok('K7', 'rsync-parts:%s' % b.nid, 'module directory from the canonical module')
            n += 1
            continue
        n += 1
        full = any(set(kinds) == f for f in RSYNC_FULL)
        order_ok = kinds in (['rsync-authority', 'rsync-module', 'rsync-path'], ['rsync-canonical-module', 'rsync-path'],
                             ['module-path', 'rsync-path'])
        ctx.check(full and order_ok, 'K7', 'rsync-parts:%s' % b.nid,
                  'the object path uses authority, module and path of the URI, in this order',
                  '%s derives an object path from %s only: two rsync URIs differing in a part that is left out (or with parts '
                  'swapped) are mapped to the same local file' % (b.nid, kinds), loc='%s:%d' % (b.file, b.line))
        # separators in format templates
        phs = [p for p in fmtctx.placeholders(b, ctx.repo) if p.found and p.origin is not None
               and re.search(r'Rsync::(canonical_authority|module_name|path)', describe(p.origin))]
        by_tpl = {}
        for p in phs:
            by_tpl.setdefault((p.file, p.template), []).append(p)
        for (f, tpl), ps in by_tpl.items():
            m = re.findall(r'\}([^{}]*)\{', tpl)
            ctx.check(all('/' in sep for sep in m) and len(m) == len(ps) - 1, 'K7', 'rsync-separators:%s' % b.nid,
                      'consecutive URI parts in the template %r are separated by `/`' % tpl,
                      '%s formats URI parts into %r without a `/` between them: (host, module) pairs with the same concatenation '
                      'collide' % (b.nid, tpl), loc='%s:%d' % (b.file, ps[0].line))
    ctx.floor('K7', 'bodies deriving paths from rsync URI parts', n, 5)


def rule_digest_inputs(ctx):
    want = {
        'rpki::uri::Https': ['https-authority', 'https-path'],
        'rpki::uri::Rsync': ['rsync-authority', 'rsync-module', 'rsync-path'],
    }
    n = 0
    for b in ctx.facts.all_bodies():
        if not b.nid.endswith('::unique_components') or not b.file.endswith('src/utils/uri.rs'):
            continue
        st = b.rec.get('impl_self') or ''
        key = next((k for k in want if k in st), None)
        if key is None:
            continue
        n += 1
        ctx.bodies.add(b.nid)
        seq = []
        ups = sorted(b.calls('re:Context::update$'), key=lambda s: (s.line or 0, s.bb))
        for s in ups:
            d = describe(b.origin_of_operand(s.term['args'][1]))
            if 'canonical_authority' in d:
                seq.append(key.split('::')[-1].lower() + '-authority')
            elif 'module_name' in d:
                seq.append('rsync-module')
            elif re.search(r'(Rsync|Https)::path\b', d):
                seq.append(key.split('::')[-1].lower() + '-path')
            elif d.startswith('const('):
                seq.append('sep')
            else:
                seq.append('?' + d[:40])
        parts = [x for x in seq if x != 'sep']
        sep_ok = all(seq[i] == 'sep' for i in range(len(seq)) if i > 0 and seq[i - 1] != 'sep' and seq[i] != 'sep') is True
        # between two URI parts there must be a constant
        adjacent = any(seq[i] != 'sep' and seq[i + 1] != 'sep' for i in range(len(seq) - 1))
        ctx.check(parts == want[key] and not adjacent, 'K7', 'digest-input:%s' % key.split('::')[-1],
                  'the digest covers %s with constant separators' % ', '.join(want[key]),
                  'unique_components for %s feeds %s into the digest: URIs that differ only in a missing part (or whose parts '
                  'are concatenated without a separator) get the same file name' % (key, seq), loc='%s:%d' % (b.file, b.line))
        # the authority returned is the canonical one
        rets = [describe(o) for o in [b.origin_of_place([0])]]
        ctx.check('canonical_authority' in rets[0], 'K7', 'digest-authority:%s' % key.split('::')[-1],
                  'the directory component returned is the canonical authority',
                  'unique_components for %s does not return the canonical authority as directory name (%s)' % (key, rets[0][:80]),
                  loc='%s:%d' % (b.file, b.line))
    ctx.floor('K7', 'unique_components implementations', n, 2)


def const_value(facts, name):
    bs = facts.find(name)
    if len(bs) != 1:
        return None
    for site, st in bs[0].stmts():
        if st['s'] == 'assign' and st['lhs'] == [0]:
            k = st['rv'].get('o', {}).get('k') if st['rv']['r'] == 'use' else None
            if k and isinstance(k.get('v'), str):
                return k['v'].strip('"')
    return None


def rule_namespaces(ctx):
    names = ['STATUS_NAME', 'RSYNC_TA_PATH', 'HTTPS_TA_PATH', 'RRDP_BASE', 'RSYNC_PATH', 'TMP_BASE']
    vals = {}
    for nme in names:
        v = const_value(ctx.facts, 'store::Store::' + nme)
        if v is None:
            ctx.bad('K3', 'store-const:' + nme, 'cannot evaluate store::Store::%s' % nme)
            continue
        vals[nme] = v
    ks = sorted(vals)
    for i, a in enumerate(ks):
        for c in ks[i + 1:]:
            pa, pc = vals[a].strip('/').split('/'), vals[c].strip('/').split('/')
            m = min(len(pa), len(pc))
            nested = pa[:m] == pc[:m]
            ctx.check(not nested, 'K3', 'store-namespaces:%s/%s' % (a, c),
                      'store sub-trees %r and %r are disjoint' % (vals[a], vals[c]),
                      'store sub-trees %s=%r and %s=%r overlap: files of different kinds (trust anchors, RRDP, rsync, temp) can '
                      'name the same path' % (a, vals[a], c, vals[c]))


def root_key(o):
    """Identity of the value behind clones / conversions: user local name or call site."""
    seen = 0
    while o is not None and seen < 30:
        seen += 1
        if o.kind in ('ref', 'cast'):
            o = o.base
        elif o.kind == 'place' and all(p == '*' for p in o.proj):
            o = o.base
        elif o.kind == 'call' and PLUMBING.match(norm(o.callee)) and len(o.args) == 1:
            o = o.args[0]
        else:
            break
    if o is None:
        return None
    if o.kind == 'call':
        return 'call@%d' % o.site.bb
    if o.kind == 'multi' and getattr(o, 'user', None):
        return 'local:%s' % o.local
    return o.path()


def through(b, j, sites):
    """Every entry->return path through site j passes one of `sites` (before or after j)."""
    nodes = {s.bb for s in sites}
    if not nodes:
        return False
    if b.path_avoiding(j.bb, avoid_nodes=nodes) is None:
        return True
    return all(b.path_avoiding(r.bb, avoid_nodes=nodes, start=j.bb) is None for r in b.returns())


def rule_registry(ctx):
    b = ctx.body('utils::dump::DumpRegistry::make_path')
    joins = [s for s in b.calls(['std::path::Path::join', 'std::path::PathBuf::push'])]
    ctx.floor('K1', 'names handed out by DumpRegistry::make_path', len(joins), 2)
    ins_dirs = [s for s in b.calls('re:HashSet.*::insert$') if 'rrdp_dirs' in describe(b.origin_of_operand(s.term['args'][0]))]
    ins_uris = [s for s in b.calls('re:HashMap.*::insert$') if 'rrdp_uris' in describe(b.origin_of_operand(s.term['args'][0]))]
    contains = [s for s in b.calls('re:HashSet.*::contains$') if 'rrdp_dirs' in describe(b.origin_of_operand(s.term['args'][0]))]
    for j in joins:
        rk = root_key(b.origin_of_operand(j.term['args'][1]))
        # (1) inserted into the set of used names before it is handed out
        d1 = through(b, j, [s for s in ins_dirs if root_key(b.origin_of_operand(s.term['args'][1])) == rk])
        ctx.check(d1, 'K1', 'registry:name-recorded:%s' % describe(b.origin_of_operand(j.term['args'][1]))[:40],
                  'the directory name handed out is inserted into rrdp_dirs on every path that hands it out',
                  'DumpRegistry::make_path hands out a directory name without recording it in rrdp_dirs: the next rpkiNotify URI '
                  'with the same authority is given the same directory, so two RRDP repositories are dumped over each other',
                  loc=j.loc())
        # (2) recorded for the URI
        d2 = through(b, j, [s for s in ins_uris if root_key(b.origin_of_operand(s.term['args'][2])) == rk])
        ctx.check(d2, 'K1', 'registry:uri-recorded:%s' % describe(b.origin_of_operand(j.term['args'][1]))[:40],
                  'the name is recorded for the URI in rrdp_uris on every path that hands it out',
                  'DumpRegistry::make_path hands out a directory without recording it for the URI: a later lookup creates a second '
                  'directory for the same repository and repositories.json misses it', loc=j.loc())
        # (3) guarded by the absent edge of contains(name)
        ok3 = False
        for c in contains:
            if root_key(b.origin_of_operand(c.term['args'][1])) != rk:
                continue
            for sbb in b.switches():
                o, edges = b.switch_edges(sbb)
                if o is not None and o.kind == 'call' and o.site.bb == c.bb:
                    pe = [(sbb, tb) for tb, labs in edges.items() if labs == {'false'}]
                    if pe and b.path_avoiding(j.bb, avoid_edges=pe) is None:
                        ok3 = True
        ctx.check(ok3, 'K1', 'registry:name-unused:%s' % describe(b.origin_of_operand(j.term['args'][1]))[:40],
                  'the name is handed out only on the not-contained edge of rrdp_dirs.contains(name)',
                  'DumpRegistry::make_path hands out a directory name that was not tested against the names already in use',
                  loc=j.loc())
    # writers
    from lib.rules import k3_field_writers
    k3_field_writers(ctx, 'K3', 'utils::dump::DumpRegistry',
                     allowed={'utils::dump::DumpRegistry::make_path', 'utils::dump::DumpRegistry::new'},
                     fields=['rrdp_dirs', 'rrdp_uris'], floor=1)
    # get_repo_path: an existing mapping is looked up by the URI itself
    g = ctx.body('utils::dump::DumpRegistry::get_repo_path')
    gets = [s for s in g.calls('re:HashMap.*::get$')]
    ok = any('rrdp_uris' in describe(g.origin_of_operand(s.term['args'][0])) and
             'rpki_notify' in describe(g.origin_of_operand(s.term['args'][1])) for s in gets)
    mk = g.calls('utils::dump::DumpRegistry::make_path')
    ctx.check(ok and len(mk) >= 1, 'K1', 'registry:lookup-by-uri',
              'an existing directory is reused only through rrdp_uris.get(uri); otherwise make_path allocates a fresh one',
              'DumpRegistry::get_repo_path no longer keys the directory by the rpkiNotify URI', loc='%s:%d' % (g.file, g.line))


def rule_module_ctor(ctx):
    """Module values (whose [8..] suffix becomes a directory) are only made from canonical_module()."""
    b = ctx.body('collector::rsync::Module::from_uri')
    ok = any(norm(s.callee).endswith('Rsync::canonical_module') for s in b.calls(None))
    ctx.check(ok, 'K3', 'module-from-canonical', 'Module::from_uri derives the module from Rsync::canonical_module',
              'Module::from_uri no longer uses the canonical (lower-cased authority) module: rsync://HOST/m and rsync://host/m '
              'are fetched into different directories, or distinct hosts into one', loc='%s:%d' % (b.file, b.line))
    users = ctx.facts.callers('collector::rsync::Module::from_str')
    okc = re.compile(r'^(collector::rsync::Module::from_uri|<collector::rsync::OwnedModule as std::(convert::AsRef|borrow::Borrow|ops::Deref)>::\w+)$')
    outside = [s for s in users if not okc.match(s.body.nid) and '::test::' not in s.body.nid]
    ctx.check(not outside, 'K3', 'module-unchecked-ctor',
              'the unchecked Module::from_str is used only by Module::from_uri and by OwnedModule\'s own views',
              'Module::from_str (unchecked) is called from %s' % [s.body.nid for s in outside])
    from lib.rules import agg_sites
    mk = []
    for b2 in scoped_bodies(ctx.facts):
        for site in agg_sites(b2, 'collector::rsync::OwnedModule'):
            mk.append((b2, site))
    bad = [(b2, site) for b2, site in mk if not re.search(r'Module::from_uri$|Module as std::borrow::ToOwned>::to_owned$', b2.nid)]
    ctx.floor('K3', 'OwnedModule constructions', len(mk), 2)
    ctx.check(not bad, 'K3', 'ownedmodule-ctor', 'OwnedModule is built only from a canonical module (from_uri) or an existing Module (to_owned)',
              'OwnedModule constructed in %s' % [b2.nid for b2, _ in bad])


def rules_all(ctx):
    rule_components(ctx)


RULES = [rule_components, rule_unique_path, rule_rsync_complete, rule_digest_inputs, rule_namespaces, rule_registry, rule_module_ctor]
