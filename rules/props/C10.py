"""C10 Trust anchors are bound to their TAL key (K1, K4)."""
import re
from lib.rules import G, require_guards, arg_desc, who_calls, arg_path, fmt_path
from lib.tables import enumerate_paths
from props.C01 import rule_tal

META = dict(
    level='other',
    explanation=(
        'K1 over engine::Run::process_tal_task (shared with C01): process_ta is reachable only through TAL-key equality, Ok of '
        'validate_ta and Ok of CaCert::root; if the key comparison is not in process_tal_task it must dominate every '
        'certificate-returning path of load_ta (fetched AND stored). K1/K4 over engine::Run::load_ta: store.update_ta is '
        'reachable only on the Ok edge of Cert::decode applied to the very bytes that are stored; every other path (no '
        'collector, download failed, undecodable download) ends in the store fallback store.load_ta whose bytes are decoded; '
        'the loop in process_tal_task `continue`s on every failed URI and the no-anchor exit calls process_ta on no path. '
        'K3: update_ta has no caller besides load_ta.'),
    decides='key binding + validate_ta on every path to process_ta; decode-before-store; store fallback on all failure paths',
    undecided='what Cert::decode / validate_ta accept (rpki crate)',
    trusted_base=['rustc MIR construction + callee resolution'],
    rules=['K1 process_tal_task guards', 'K1 update_ta <= Ok(decode(same bytes))', 'K4 load_ta outcomes', 'K3 update_ta callers'],
)

OKL = {'Ok', 'pass', 'Some'}


def rule_load_ta(ctx):
    b = ctx.body('engine::Run::load_ta')
    ups = b.calls('store::Run::update_ta')
    ctx.floor('K1', 'update_ta call in load_ta', len(ups), 1)
    require_guards(ctx, 'K1', b, ups, [
        G('Some(collector.load_ta)', call='collector::base::Run::load_ta', labels=OKL),
        G('Ok(Cert::decode)', call='Cert::decode', labels=OKL),
    ], 'a downloaded trust anchor certificate is stored only if it decodes')
    for u in ups:
        stored = arg_desc(u, 2)
        decs = [arg_desc(d, 0) for d in b.calls('Cert::decode') if b.site_dominates(d, u)]
        same = any(('collector::base::Run::load_ta' in stored or 'Run::load_ta' in stored) and
                   ('Run::load_ta' in d) and re.sub(r'@Some\.0', '', d) == re.sub(r'@Some\.0', '', stored) for d in decs)
        ctx.check(same, 'prov', 'load_ta:stored-bytes=decoded-bytes',
                  'the bytes written to the store (%s) are the bytes that decoded (%s)' % (stored, decs),
                  'the bytes written to the store (`%s`) are not the bytes that were decoded (`%s`)' % (stored, decs), loc=u.loc())
        d1 = arg_desc(u, 1)
        ctx.check(d1 == 'uri', 'prov', 'load_ta:update_ta:uri', 'stored under the TAL URI being processed', 'stored under `%s`' % d1, loc=u.loc())
    paths = enumerate_paths(b, ctx.facts)
    n_fb = 0
    for p in paths:
        cm = p.cond_map()

        def lab(rx):
            for v, labs in cm.items():
                if re.search(rx, v) and len(labs) == 1:
                    return list(labs)[0]
            return None
        coll = lab(r'^self\.collector$')
        dl = lab(r'^call:Run::load_ta\(.*\)$') if coll == 'Some' else None
        dec = lab(r'^call:Cert::decode') if dl == 'Some' else None
        fetched_ok = coll == 'Some' and dl == 'Some' and dec == 'Ok'
        fb = bool(p.called('store::Run::load_ta'))
        if fetched_ok:
            key_mismatch = any(v.startswith('cmp(') and 'subject_public_key_info' in v and 'Equal' not in labs
                               for v, labs in cm.items())
            if key_mismatch:
                # a refactoring may compare the key here; a mismatching download must then not be stored
                ctx.check(not p.called('store::Run::update_ta'), 'K4', 'load_ta:key-mismatch=>not-stored',
                          'a download with a foreign key is not stored', 'a download with a foreign key is stored')
                continue
            ok = bool(p.called('store::Run::update_ta')) and not fb
            ctx.check(ok, 'K4', 'load_ta:fetched-ok=>stored-and-returned', 'a decodable download is stored and used',
                      'a decodable download is not stored / falls through to the store copy', loc=p.ret_site.loc() if p.ret_site else None)
        else:
            n_fb += 1
            ctx.check(fb and not p.called('store::Run::update_ta'), 'K4',
                      'load_ta:collector=%s,download=%s,decode=%s=>store-fallback' % (coll, dl, dec),
                      'falls back to the stored copy without touching it',
                      'when the download is unavailable or undecodable (collector=%s, download=%s, decode=%s) load_ta does not '
                      'fall back to the stored copy, or overwrites it' % (coll, dl, dec), loc=p.ret_site.loc() if p.ret_site else None)
    ctx.floor('K4', 'fallback paths of load_ta', n_fb, 3)
    # the stored copy is decoded too (closure of the map)
    cls = [c for c in ctx.closures(b) if c.calls('Cert::decode')]
    ctx.check(len(cls) >= 1, 'K4', 'load_ta:stored-copy-decoded', 'the stored copy is decoded before use',
              'the stored copy is used without Cert::decode')
    who_calls(ctx, 'K3', 'store::Run::update_ta', ['engine::Run::load_ta'])


def rule_no_anchor(ctx):
    b = ctx.body('engine::Run::process_tal_task')
    # every failed URI continues the loop: the Err/None/mismatch edges must not reach process_ta without passing a new load_ta
    sinks = b.calls('engine::ProcessRun::process_ta')
    lts = b.calls('engine::Run::load_ta')
    ctx.floor('K1', 'load_ta call in process_tal_task', len(lts), 1)
    for s in sinks:
        ctx.check(all(b.site_dominates(l, s) for l in lts), 'K1', 'process_tal_task:process_ta<=load_ta',
                  'process_ta uses a certificate obtained from load_ta in this iteration', 'process_ta reachable without load_ta', loc=s.loc())
    # the post-loop exit (no valid anchor) does not call process_ta
    none_e, _sw = G('no more URIs', call='Iterator::next', labels={'None'}).edges(b)
    ctx.floor('K1', 'URI loop exit edge', len(none_e), 1)
    for (_s, t) in none_e:
        r = b.reachable(t)
        ctx.check(not any(s.bb in r for s in sinks), 'K1', 'process_tal_task:all-uris-failed=>nothing',
                  'when every URI failed no trust anchor is processed', 'process_ta reachable after the URI loop is exhausted')


RULES = [rule_tal, rule_load_ta, rule_no_anchor]
