"""C10 Trust anchors are bound to their TAL key (K1, K4)."""
import re
from lib.rules import G, require_guards, arg_desc, who_calls, arg_path, fmt_path
from lib.tables import enumerate_paths
from props.C01 import rule_tal

META = dict(
    level='other',
    explanation=(
        'K1 over engine::Run::process_tal_task (shared with C01): process_ta is reachable only through TAL-key equality, Ok of '
        'validate_ta and Ok of CaCert::root; if the key comparison is not in process_tal_task it must dominate every '
        'certificate-returning path of load_ta (fetched AND stored). K1/K4 over engine::Run::load_ta: store.update_ta is '
        'reachable only on the Ok edge of Cert::decode applied to the very bytes that are stored; every other path (no '
        'collector, download failed, undecodable download) ends in the store fallback store.load_ta whose bytes are decoded; '
        'the loop in process_tal_task `continue`s on every failed URI and the no-anchor exit calls process_ta on no path. '
        'K3: update_ta has no caller besides load_ta.'),
    decides='key binding + validate_ta on every path to process_ta; decode-before-store; store fallback on all failure paths; the stored copy survives cleanup while it decodes and has not expired',
    undecided='what Cert::decode / validate_ta accept (rpki crate)',
    trusted_base=['rustc MIR construction + callee resolution'],
    rules=['K1 process_tal_task guards', 'K1 update_ta <= Ok(decode(same bytes))', 'K4 load_ta outcomes', 'K3 update_ta callers', 'K4 store::Run::cleanup_ta deletes only undecodable or expired copies (shared with C40)'],
)

OKL = {'Ok', 'pass', 'Some'}


def stored_copy_semantics(ctx, b):
    """How engine::Run::load_ta uses the stored copy -> (decoded before use, undecodable counts as absent).
    Two shapes: `store.load_ta(uri).map(|b| b.and_then(|b| Cert::decode(b).ok()))` (closures) or explicit matches
    (every `Ok(Some(x))` of a fallback path is the Ok payload of Cert::decode over the stored bytes; every fallback path
    on which that decode failed returns `Ok(None)`)."""
    cls = [c for c in ctx.closures(b) if c.calls('Cert::decode')]
    if cls:
        tolerant = any('Cert::decode' in arg_desc(s, 0) for c in cls for s in c.calls('Result::ok'))
        return True, tolerant
    dec = absent = True
    n = 0
    for p in enumerate_paths(b, ctx.facts):
        if p.kind != 'return' or not p.called('store::Run::load_ta'):
            continue
        o = p.outcome or ''
        cm = p.cond_map()
        sd = [l for v, l in cm.items() if v.startswith('call:Cert::decode(') and 'self.store' in v]
        if o.startswith('Result::Ok(Option::Some('):
            n += 1
            if not (re.match(r'^Result::Ok\(Option::Some\(call:Cert::decode\(.*self\.store.*\)@Ok\.0\)\)$', o) and sd and sd[0] == {'Ok'}):
                dec = False
        elif sd and sd[0] == {'Err'}:
            n += 1
            if o != 'Result::Ok(Option::None())':
                absent = False
    return dec and n >= 2, absent and n >= 2


def rule_load_ta(ctx):
    b = ctx.body('engine::Run::load_ta')
    ups = b.calls('store::Run::update_ta')
    ctx.floor('K1', 'update_ta call in load_ta', len(ups), 1)
    require_guards(ctx, 'K1', b, ups, [
        G('Some(collector.load_ta)', call='collector::base::Run::load_ta', labels=OKL),
        G('Ok(Cert::decode)', call='Cert::decode', labels=OKL),
    ], 'a downloaded trust anchor certificate is stored only if it decodes')
    for u in ups:
        # path-sensitive: on every path that reaches update_ta, the stored bytes are the argument of a decode that returned Ok
        verdicts = []
        for p in enumerate_paths(b, ctx.facts):
            if not any(s.bb == u.bb for s in p.events):
                continue
            stored = (p.event_args.get(u.bb) or [None, None, None])[2] if len(p.event_args.get(u.bb) or []) > 2 else None
            cm = p.cond_map()
            okd = [(p.event_args.get(s.bb) or [None])[0] for s in p.events if s.callee.endswith('Cert::decode')]
            okd = [d for d in okd if d and cm.get('call:Cert::decode(%s)' % d) == {'Ok'}]
            verdicts.append((stored, okd, bool(stored) and stored in okd and 'self.collector' in stored))
        same = bool(verdicts) and all(v[2] for v in verdicts)
        stored = sorted(set(str(v[0]) for v in verdicts))
        decs = sorted(set(d for v in verdicts for d in v[1]))
        ctx.check(same, 'prov', 'load_ta:stored-bytes=decoded-bytes',
                  'the bytes written to the store (%s) are the bytes that decoded (%s)' % (stored, decs),
                  'the bytes written to the store (`%s`) are not the bytes that were decoded (`%s`)' % (stored, decs), loc=u.loc())
        d1 = arg_desc(u, 1)
        ctx.check(d1 == 'uri', 'prov', 'load_ta:update_ta:uri', 'stored under the TAL URI being processed', 'stored under `%s`' % d1, loc=u.loc())
    paths = enumerate_paths(b, ctx.facts)
    n_fb = 0
    for p in paths:
        cm = p.cond_map()

        def lab(rx):
            for v, labs in cm.items():
                if re.search(rx, v) and len(labs) == 1:
                    return list(labs)[0]
            return None
        coll = lab(r'^self\.collector$')
        dl = lab(r'^call:Run::load_ta\(.*\)$') if coll == 'Some' else None
        dec = lab(r'^call:Cert::decode') if dl == 'Some' else None
        fetched_ok = coll == 'Some' and dl == 'Some' and dec == 'Ok'
        fb = bool(p.called('store::Run::load_ta'))
        if fetched_ok:
            key_mismatch = any(v.startswith('cmp(') and 'subject_public_key_info' in v and 'Equal' not in labs
                               for v, labs in cm.items())
            if key_mismatch:
                # a refactoring may compare the key here; a mismatching download must then not be stored
                ctx.check(not p.called('store::Run::update_ta'), 'K4', 'load_ta:key-mismatch=>not-stored',
                          'a download with a foreign key is not stored', 'a download with a foreign key is stored')
                continue
            ok = bool(p.called('store::Run::update_ta')) and not fb
            ctx.check(ok, 'K4', 'load_ta:fetched-ok=>stored-and-returned', 'a decodable download is stored and used',
                      'a decodable download is not stored / falls through to the store copy', loc=p.ret_site.loc() if p.ret_site else None)
        else:
            n_fb += 1
            ctx.check(fb and not p.called('store::Run::update_ta'), 'K4',
                      'load_ta:collector=%s,download=%s,decode=%s=>store-fallback' % (coll, dl, dec),
                      'falls back to the stored copy without touching it',
                      'when the download is unavailable or undecodable (collector=%s, download=%s, decode=%s) load_ta does not '
                      'fall back to the stored copy, or overwrites it' % (coll, dl, dec), loc=p.ret_site.loc() if p.ret_site else None)
    ctx.floor('K4', 'fallback paths of load_ta', n_fb, 3)
    # the stored copy is decoded too
    dec, _absent = stored_copy_semantics(ctx, b)
    ctx.check(dec, 'K4', 'load_ta:stored-copy-decoded', 'the stored copy is decoded before use',
              'the stored copy is used without Cert::decode')
    who_calls(ctx, 'K3', 'store::Run::update_ta', ['engine::Run::load_ta'])


def rule_no_anchor(ctx):
    b = ctx.body('engine::Run::process_tal_task')
    # every failed URI continues the loop: the Err/None/mismatch edges must not reach process_ta without passing a new load_ta
    sinks = b.calls('engine::ProcessRun::process_ta')
    lts = b.calls('engine::Run::load_ta')
    ctx.floor('K1', 'load_ta call in process_tal_task', len(lts), 1)
    for s in sinks:
        ctx.check(all(b.site_dominates(l, s) for l in lts), 'K1', 'process_tal_task:process_ta<=load_ta',
                  'process_ta uses a certificate obtained from load_ta in this iteration', 'process_ta reachable without load_ta', loc=s.loc())
    # the post-loop exit (no valid anchor) does not call process_ta
    none_e, _sw = G('no more URIs', call='Iterator::next', labels={'None'}).edges(b)
    ctx.floor('K1', 'URI loop exit edge', len(none_e), 1)
    for (_s, t) in none_e:
        r = b.reachable(t)
        ctx.check(not any(s.bb in r for s in sinks), 'K1', 'process_tal_task:all-uris-failed=>nothing',
                  'when every URI failed no trust anchor is processed', 'process_ta reachable after the URI loop is exhausted')


from props.C40 import rule_ta_cleanup  # noqa: E402  (the stored copy a failed download falls back to must survive cleanup)

RULES = [rule_tal, rule_load_ta, rule_no_anchor, rule_ta_cleanup]
