"""C21 Output formats list exactly the selected payload, well-formed (K6, K4 selection)."""
import re
from lib.facts import norm
from lib.fmtctx import placeholders, inert_reason
from lib.tables import enumerate_paths, describe
from lib.rules import arg_desc

META = dict(
    level='other',
    explanation=(
        'K6 sink typing over every body of the JSON-producing formatters in output.rs (Json, ExtendedJson incl. payload_info, '
        'Slurm, Slurm2): each value formatted inside a quoted JSON context must have an inert type (table with reasons in '
        'lib/fmtctx.py), be wrapped by utils::json::json_str, be produced by format_iso_date, or be a string constant '
        '(including parameters for which every caller passes a constant). K4 on the selection predicate: '
        'Selection::include_origin/include_router_key/include_aspa are existential over the selector list (first match -> '
        'true, exhausted -> false; or Iterator::any), never universal; SelectResource::include_* compare the right field '
        '(ASN selectors match asn / customer, prefix selectors match covering prefixes and - only with more-specifics - '
        'covered ones; prefix selectors never select router keys or ASPAs); Output::include_* return true when no '
        'selection is set.'),
    decides='no unescaped free-text value in any JSON/SLURM string; OR-semantics and field choice of the selection',
    undecided='"exactly once" over all data sets; SLURM round trip of the numeric fields',
    trusted_base=['rustc MIR construction + callee resolution', 'Display of inert types'],
    rules=['K6 JSON formatters', 'K4 selection existential', 'K4 SelectResource rows'],
)

JSON_FMT = re.compile(r'output::(Json|ExtendedJson|Slurm|Slurm2)\b')


def tuple_elem(o):
    while o is not None and o.kind in ('ref', 'cast'):
        o = o.base
    if o is not None and o.kind == 'place' and o.base.kind == 'agg' and o.base.rv.get('kind') == 'tuple':
        proj = [p for p in o.proj if p != '*']
        if len(proj) >= 1 and re.match(r'^\.\d+$', proj[0]):
            e = o.base.ops[int(proj[0][1:])]
            return e
    return o


def const_param(ctx, body, name):
    """All callers pass a constant for parameter `name` of body."""
    idx = None
    for d in body.rec['debug']:
        if d['name'] == name and d.get('arg'):
            idx = d['arg'] - 1
    if idx is None:
        return False
    cs = ctx.facts.callers(body.nid)
    return bool(cs) and all('const(' in arg_desc(s, idx) for s in cs)


def rule_k6(ctx):
    n = 0
    for b in ctx.facts.all_bodies():
        if not b.file.endswith('src/output.rs') or not JSON_FMT.search(b.nid):
            continue
        ctx.bodies.add(b.nid)
        for ph in placeholders(b, ctx.repo):
            if not ph.found:
                ctx.bad('K6', 'output:placeholder-unresolved:%s' % b.nid, 'cannot locate template (%s)' % ph.why, loc=ph.loc())
                continue
            if not ph.quoted:
                continue
            n += 1
            ctx.call_sites += 1
            e = tuple_elem(ph.origin)
            while e is not None and e.kind in ('ref', 'cast'):
                e = e.base
            d = describe(e)
            why = inert_reason(ph.ty)
            ok = why is not None
            if not ok and ('json_str(' in d or d.startswith('call:date::format_iso_date') or 'format_iso_date(' in d):
                ok, why = True, 'escaped/ISO date'
            if not ok and d.startswith('const('):
                ok, why = True, 'constant'
            if not ok and e is not None and e.kind == 'param' and const_param(ctx, b, e.name):
                ok, why = True, 'constant at every call site'
            short = re.sub(r'.*output::', '', b.nid)
            ctx.check(ok, 'K6', 'json-quoted:%s:%s' % (short, ph.ty[:24]),
                      '%s in quotes: %s' % (ph.ty[:40], why),
                      'a value of type %s (%s) is written inside a JSON string in %s without json_str(): any quote or backslash '
                      'in it (e.g. a trust-anchor name from tal-label or a file name) makes the output invalid JSON'
                      % (ph.ty, d[:70], b.nid), loc=ph.loc())
            if n % 9 == 0:
                ctx.sample(dict(body=b.nid, at=ph.loc(), type=ph.ty, context=ph.before[-16:], why=why))
    ctx.floor('K6', 'quoted placeholders in JSON formatters', n, 30)


def rule_selection(ctx):
    for m in ('include_origin', 'include_router_key', 'include_aspa'):
        b = ctx.body('output::Selection::' + m)
        alls = b.calls(['Iterator::all'])
        ctx.check(not alls, 'K4', 'Selection::%s:not-universal' % m, 'no Iterator::all over the selectors',
                  'Selection::%s combines the selectors with Iterator::all: an item must then match EVERY selector, the '
                  'documented semantics is that selectors add up (any)' % m, loc=alls[0].loc() if alls else None)
        anys = b.calls(['Iterator::any'])
        if anys:
            ctx.ok('K4', 'Selection::%s:existential' % m, 'Iterator::any over the selectors')
            continue
        paths = enumerate_paths(b, ctx.facts, max_visits=2)
        good = True
        seen_true = seen_false = False
        for p in paths:
            if p.kind != 'return':
                continue
            cm = p.cond_map()
            hit = [v for v, labs in cm.items() if ('SelectResource::' + m) in v and labs == {'true'}]
            exhausted = [v for v, labs in cm.items() if '::next(' in v and labs == {'None'}]
            if p.outcome == 'const(1)':
                seen_true = True
                if not hit:
                    good = False
            elif p.outcome == 'const(0)':
                seen_false = True
                if hit or not exhausted:
                    good = False
            else:
                good = False
        ctx.check(good and seen_true and seen_false, 'K4', 'Selection::%s:existential' % m,
                  'true on the first matching selector, false only when all selectors were tried',
                  'Selection::%s is not "any selector matches"' % m)
    # Output::include_*: no selection -> everything
    for m in ('include_origin', 'include_router_key', 'include_aspa'):
        b = ctx.body('output::Output::' + m)
        for p in enumerate_paths(b, ctx.facts):
            cm = p.cond_map()
            sel = [labs for v, labs in cm.items() if 'selection' in v]
            if sel and sel[0] == {'None'}:
                ctx.check(p.outcome == 'const(1)', 'K4', 'Output::%s:no-selection=>all' % m, 'no selection includes everything', 'no selection -> %s' % p.outcome)
            elif sel and sel[0] == {'Some'}:
                ctx.check(('Selection::' + m) in p.outcome, 'K4', 'Output::%s:selection=>predicate' % m, 'delegates to the selection', 'selection -> %s' % p.outcome)


def rule_select_resource(ctx):
    b = ctx.body('output::SelectResource::include_origin')
    for p in enumerate_paths(b, ctx.facts):
        cm = p.cond_map()
        var = [labs for v, labs in cm.items() if v == 'self'][0] if any(v == 'self' for v in cm) else None
        o = p.outcome
        if var == {'Asn'}:
            ctx.check(bool(re.search(r'origin\.asn', o)) and 'self@Asn.0' in o, 'K4', 'SelectResource::include_origin:Asn',
                      'ASN selector compares origin.asn', 'ASN selector yields %s' % o)
    txt = ' '.join(p.outcome + str(sorted(p.cond_map().items())) for p in enumerate_paths(b, ctx.facts))
    ctx.check('Prefix::covers(call:MaxLenPrefix::prefix(origin.prefix),self@Prefix.0)' in txt, 'K4', 'SelectResource::include_origin:Prefix:covering',
              'prefix selector matches VRPs covering the selected prefix', 'covering test missing')
    ctx.check('more_specifics' in txt and 'Prefix::covers(self@Prefix.0,call:MaxLenPrefix::prefix(origin.prefix))' in txt, 'K4',
              'SelectResource::include_origin:Prefix:more-specifics', 'more specifics only with the flag', 'more-specifics test changed')
    # more-specific match requires the flag
    for p in enumerate_paths(b, ctx.facts):
        cm = p.cond_map()
        ms = [labs for v, labs in cm.items() if v == 'more_specifics']
        rev = [labs for v, labs in cm.items() if v.startswith('call:Prefix::covers(self@Prefix.0')]
        if rev and rev[0] == {'true'} and p.outcome == 'const(1)':
            ctx.check(ms and ms[0] == {'true'}, 'K4', 'SelectResource::include_origin:more-specifics-needs-flag',
                      'a more specific VRP is only included with more_specifics', 'more specific VRPs included without the flag')
    for m, fld in (('include_router_key', 'key.asn'), ('include_aspa', 'aspa.customer')):
        bb = ctx.body('output::SelectResource::' + m)
        for p in enumerate_paths(bb, ctx.facts):
            cm = p.cond_map()
            var = [labs for v, labs in cm.items() if v == 'self']
            if var and var[0] == {'Asn'}:
                ctx.check(fld in p.outcome and 'self@Asn.0' in p.outcome, 'K4', 'SelectResource::%s:Asn' % m, 'compares %s' % fld, 'ASN selector yields %s' % p.outcome)
            else:
                ctx.check(p.outcome == 'const(0)', 'K4', 'SelectResource::%s:Prefix=>false' % m, 'prefix selectors do not select this type', 'prefix selector yields %s' % p.outcome)


def rule_delimiters(ctx):
    """A delimiter (and an item) is written only for an item that passed the selection: one delimiter between listed items."""
    from lib.rules import G, require_guards
    b = ctx.body('output::OutputStream::write_next')
    for kind in ('origin', 'router_key', 'aspa'):
        g = G('include_%s is true' % kind, call='output::Output::include_%s' % kind, labels={'true'})
        dels = b.calls('output::Formatter::%s_delimiter' % kind)
        items = b.calls('output::Formatter::%s' % kind)
        ctx.floor('K1', '%s delimiter call in write_next' % kind, len(dels), 1)
        ctx.floor('K1', '%s item call in write_next' % kind, len(items), 1)
        require_guards(ctx, 'K1', b, dels, [g],
                       'a delimiter is written only in front of an item that is actually listed (otherwise a selection that '
                       'excludes an item leaves a stray comma and the JSON/SLURM output no longer parses)')
        require_guards(ctx, 'K1', b, items, [g], 'only selected items are written')
        # every selected item except the first is preceded by a delimiter: the item call is reached from the true edge
        # either through the delimiter or through the `first` flag edge
        for it in items:
            e, sw = g.edges(b)
            ctx.check(bool(sw), 'K1', 'write_next:%s:selection-consulted' % kind, 'the selection is consulted per item',
                      'write_next no longer consults include_%s' % kind, loc=it.loc())


from props.C22 import rule_json_str  # noqa: E402  (free-text values are made safe by json_str: its escaper is part of C21 too)

RULES = [rule_delimiters, rule_k6, rule_selection, rule_select_resource, rule_json_str]
