"""C36 RTR client metrics stay consistent under concurrent connections (K5, K3 pairing)."""
from lib.facts import Site, norm
from lib.rules import (G, arg_desc, who_calls, arg_path, agg_sites, held_at, fmt_path, strip_origin)
from lib.tables import describe

META = dict(
    level='other',
    explanation=(
        'K5 double-checked publication in metrics::RtrPerAddrMetrics::get: ArcSwap::store on `addrs` happens only while the '
        '`write` mutex guard is held, and every value the stored vector is built from (both extend_from_slice sources, the '
        'insertion index and the length) derives from an ArcSwap::load made AFTER the mutex was acquired - a snapshot taken '
        'before waiting for the mutex would overwrite an entry published by the previous holder (lost or duplicated '
        'address); the insertion index is the Err position of binary_search_by on that same snapshot (sorted list). K3: '
        '`addrs` is stored nowhere else. Pairing for the connection counts: inc_current_connections is called only in '
        'RtrStream::new after the last fallible step (no error return can follow it), dec_current_connections only in '
        '<RtrStream as Drop>::drop, and RtrStream values are constructed only in RtrStream::new - so every increment is '
        'matched by exactly one decrement when the stream is dropped.'),
    decides='publication under the mutex from a post-lock snapshot; inc/dec pairing by construction',
    undecided='arc_swap / std Mutex semantics (trusted)',
    trusted_base=['rustc MIR construction + callee resolution', 'arc_swap::ArcSwap load/store; std Mutex'],
    rules=['K5 store under lock from post-lock load', 'K3 store sites', 'K3 inc/dec pairing'],
)


def loads_in(o, acc):
    """Collect ArcSwap::load call origins reachable in origin o."""
    for c in o.calls():
        if c.callee.endswith('::load') and ('ArcSwap' in c.callee or 'arc_swap' in c.callee):
            acc.add(c.site)
    return acc


def rule_get(ctx):
    b = ctx.body('metrics::RtrPerAddrMetrics::get')
    locks = [s for s in b.calls(['Mutex::lock']) if 'write' in arg_path(s, 0)]
    ctx.floor('K5', 'write.lock() in get', len(locks), 1)
    stores = [s for s in b.calls(['re:ArcSwap.*::store$', 're:arc_swap::.*::store$']) if 'addrs' in arg_path(s, 0)]
    ctx.floor('K5', 'addrs.store in get', len(stores), 1)
    loads = [s for s in b.calls(['re:ArcSwap.*::load$', 're:arc_swap::.*::load$']) if 'addrs' in arg_path(s, 0)]
    ctx.floor('K5', 'addrs.load calls in get', len(loads), 2)
    for st in stores:
        ctx.call_sites += 1
        ok = False
        for l in locks:
            h, rel = held_at(b, l, st)
            if h:
                ok = True
        ctx.check(ok, 'K5', 'get:store-under-write-lock', 'addrs.store happens while the write mutex is held',
                  'addrs.store can happen without the write mutex being held', loc=st.loc())
        # provenance of the stored vector: every load feeding it is after the lock
        src = set()
        for s in b.calls(['Vec::extend_from_slice', 'Vec::with_capacity', 'Vec::push', 'Vec::insert']):
            for a in s.term['args'][1:]:
                loads_in(b.origin_of_operand(a), src)
        loads_in(b.origin_of_operand(st.term['args'][1]), src)
        # index used for slicing / insertion
        for s in b.calls(['re:binary_search_by$']):
            pass
        ctx.check(bool(src), 'K5', 'get:new-list-built-from-a-load', 'the new list is built from a loaded snapshot', 'cannot relate the stored list to a load (shape not recognised)')
        for ld in sorted(src, key=lambda s: s.bb):
            after = any(b.site_dominates(l, ld) for l in locks)
            ctx.check(after, 'K5', 'get:snapshot-loaded-after-lock',
                      'the snapshot the new list is built from (%s) is loaded after acquiring the write mutex' % ld.loc(),
                      'the list that is stored is built from a snapshot loaded at %s BEFORE the write mutex is acquired: an entry '
                      'published by the previous holder of the mutex is overwritten (address lost, or a second metrics object for '
                      'the same address)' % ld.loc(), loc=ld.loc())
            ctx.sample(dict(store=st.loc(), snapshot_load=ld.loc(), after_lock=after))
    # the re-check under the lock returns the existing entry
    for l in locks:
        rechecks = [s for s in b.calls('re:binary_search_by$') if b.site_dominates(l, s)]
        ctx.check(len(rechecks) >= 1, 'K5', 'get:recheck-under-lock', 'the address is searched again under the lock', 'no second lookup under the lock')
        for s in rechecks:
            src = loads_in(b.origin_of_operand(s.term['args'][0]), set())
            ctx.check(bool(src) and all(b.site_dominates(l, x) for x in src), 'K5', 'get:recheck-on-post-lock-snapshot',
                      'the second lookup searches the post-lock snapshot', 'the lookup under the lock searches a snapshot loaded before the lock', loc=s.loc())
    n = 0
    for s in ctx.facts.callers('re:(ArcSwap|arc_swap).*::store$'):
        if 'addrs' in arg_path(s, 0):
            n += 1
            ctx.check(s.body.nid == 'metrics::RtrPerAddrMetrics::get', 'K3', 'addrs.store<-%s' % s.body.nid, 'stored in get()', 'addrs stored in %s' % s.body.nid, loc=s.loc())
    ctx.floor('K3', 'store sites of addrs', n, 1)


def rule_pairing(ctx):
    incs = ctx.facts.callers('metrics::RtrMetricsData::inc_current_connections')
    decs = ctx.facts.callers('metrics::RtrMetricsData::dec_current_connections')
    ctx.floor('K3', 'inc_current_connections call sites', len(incs), 1)
    ctx.floor('K3', 'dec_current_connections call sites', len(decs), 1)
    for s in incs:
        ctx.check(s.body.nid.startswith('rtr::RtrStream::new'), 'K3', 'inc<-%s' % s.body.nid, 'increment in RtrStream::new', 'increment in %s' % s.body.nid, loc=s.loc())
    for s in decs:
        ctx.check(s.body.nid.startswith('<rtr::RtrStream as std::ops::Drop>::drop'), 'K3', 'dec<-%s' % s.body.nid, 'decrement in Drop', 'decrement in %s' % s.body.nid, loc=s.loc())
    nb = ctx.body('rtr::RtrStream::new')
    ups = [s for s in nb.calls('metrics::RtrClientMetrics::update')]
    ctx.floor('K3', 'metrics.update call in RtrStream::new', len(ups), 1)
    for u in ups:
        # no error return after the increment
        bad = []
        for site, st in nb.stmts():
            if st['s'] == 'assign' and st['lhs'] == [0] and st['rv']['r'] == 'agg' and st['rv'].get('variant') == 'Err' and nb.can_reach(u.bb, site.bb):
                bad.append(site)
        for c in nb.calls(['Try::branch', 'FromResidual::from_residual']):
            if nb.can_reach(u.bb, c.bb) and c.bb != u.bb:
                bad.append(c)
        ctx.check(not bad, 'K3', 'RtrStream::new:inc-after-last-fallible', 'nothing can fail after the connection was counted',
                  'RtrStream::new can still fail (%s) after incrementing the connection count: no RtrStream exists then to decrement it' % [x.loc() for x in bad], loc=u.loc())
        lits = agg_sites(nb, 'rtr::RtrStream')
        ctx.check(bool(lits) and all(nb.site_dominates(u, l) for l in lits), 'K3', 'RtrStream::new:stream-built-after-inc', 'the stream is built after counting', 'stream built without counting')
    n = 0
    for raw, line in ctx.facts._lines.items():
        if 'RtrStream' not in line:
            continue
        b = ctx.facts.body_raw(raw)
        if b.rec.get('derive'):
            continue
        for s in agg_sites(b, 'rtr::RtrStream'):
            n += 1
            ctx.check(b.nid == 'rtr::RtrStream::new', 'K3', 'RtrStream-ctor<-%s' % b.nid, 'RtrStream built in new()', 'RtrStream constructed in %s without counting the connection' % b.nid, loc=s.loc())
    ctx.floor('K3', 'RtrStream constructors', n, 1)
    d = ctx.body('<rtr::RtrStream as std::ops::Drop>::drop')
    ctx.check(len(d.calls('metrics::RtrClientMetrics::update')) == 1, 'K3', 'Drop:one-update', 'exactly one decrement per drop', 'Drop updates the metrics %d times' % len(d.calls('metrics::RtrClientMetrics::update')))
    # update() applies the op to global and (if enabled) the per-client data
    up = ctx.body('metrics::RtrClientMetrics::update')
    calls = [arg_desc(s, 0) for s in up.calls('re:Fn(Mut|Once)?::call')] + [arg_desc(s, 1) for s in up.calls('re:Fn(Mut|Once)?::call')]
    txt = ' '.join(calls)
    ctx.check('global' in txt and 'client' in txt, 'K3', 'update:global-and-client', 'update applies the operation to global and client data', 'update applies the op to: %s' % txt[:120])


RULES = [rule_get, rule_pairing]
