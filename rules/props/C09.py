"""C09 Served data set is the documented composition of validated payload (K1, K2, K3, K4)."""
import re
from lib.facts import Site, norm
from lib.rules import G, require_guards, arg_desc, who_calls, arg_path, agg_sites, fmt_path, user_local_of
from lib.tables import enumerate_paths, describe

META = dict(
    level='other',
    explanation=(
        'Per-step rules for every documented filter/merge step: (a) K4 over one iteration of PubPoint::add_roa: the limit '
        'is chosen by is_v4() of THIS origin\'s prefix (v4 -> limit_v4_len, v6 -> limit_v6_len) and origins.push happens iff '
        'the chosen limit is None or !(len > limit); (b) K4 over process_origin / process_key: insertion iff the SLURM filter '
        '(drop_origin / drop_router_key) is false (unsafe policy: C08); (c) K1: add_router_key only on the true edge of '
        'enable_bgpsec, add_aspa only on the true edge of enable_aspa; wiring of the five report options from the config '
        'fields; (d) K2: in SnapshotBuilder::finalize insert_assertions dominates into_snapshot and in '
        'ValidationReport::into_snapshot every process_pub_point precedes finalize (assertions are added after filtering); '
        '(e) K3: the three result maps are only mutated through HashMap::entry (dedup by key); (f) ASPA: the Occupied arm '
        'stores the union of both provider sets and into_snapshot maps a ProviderAsns::try_from_iter error to None.'),
    decides='each documented filter/merge step exists, keyed on the right value, in the documented order',
    undecided='set equality over all multisets; rpki SmallAsnSet::union / ProviderAsns limits',
    trusted_base=['rustc MIR construction + callee resolution'],
    rules=['K4 add_roa limit', 'K4 SLURM filter', 'K1 feature toggles', 'K2 assertions after filtering', 'K3 entry-only insertion', 'K4 ASPA union/size'],
)


def rule_add_roa(ctx):
    b = ctx.body('payload::validation::PubPoint::add_roa')
    heads = []
    for sbb in b.switches():
        o, edges = b.switch_edges(sbb)
        oc = o
        while oc.kind in ('ref', 'cast', 'place'):
            oc = oc.base
        if oc.kind == 'call' and oc.callee.endswith('Iterator>::next') or (oc.kind == 'call' and oc.callee.endswith('::next')):
            heads.append((sbb, oc.site.bb, edges))
    # the per-origin decision is either the body of a loop or the predicate closure of `.filter(..)` feeding `extend`
    pred = []
    if not heads:
        for s in b.calls(['re:Iterator(>)?::filter$', 're:Iterator(>)?::filter_map$']):
            for a in s.term['args'][1:]:
                o = b.origin_of_operand(a)
                while o is not None and o.kind in ('ref', 'cast'):
                    o = o.base
                if o is not None and o.kind == 'agg' and o.rv.get('kind') == 'closure':
                    pred += ctx.facts.find(norm(o.rv['def']))
    ctx.floor('K4', 'origin loop in add_roa', len(heads) + len(pred), 1)
    if not heads and not pred:
        return
    paths = []
    if heads:
        sbb, callbb, edges = heads[0]
        body_start = [tb for tb, labs in edges.items() if labs == {'Some'}]
        for st in body_start:
            paths += [(p, bool(p.called('Vec::push'))) for p in enumerate_paths(b, ctx.facts, start=st)]
    else:
        ctx.bodies.add(pred[0].nid)
        paths = [(p, p.outcome == 'const(1)') for p in enumerate_paths(pred[0], ctx.facts) if p.kind == 'return']
        ctx.check(bool(b.calls(['re:Extend(<.*>)?(>)?::extend$', 're:Vec(<.*>)?::extend$', 're:::extend$', 're:::collect$'])), 'K4', 'add_roa:filtered-origins-stored',
                  'the filtered origins are stored', 'the filtered iterator is not stored into the origins')
    n = 0
    for p, pushed_ in paths:
        cm = {re.sub(r'^upvar:', '', v): l for v, l in p.cond_map().items()}
        fam = lim = cmpv = None
        fam_recv_ok = False
        for v, labs in cm.items():
            if v.startswith('call:Prefix::is_v4(') and len(labs) == 1:
                fam = list(labs)[0]
                fam_recv_ok = 'Iterator>::next' in v or '::next(' in v or (bool(pred) and 'upvar' not in v)
            elif re.match(r'^limit_v[46]_len$', v) and len(labs) == 1:
                lim = (v, list(labs)[0])
            elif v.startswith('cmp(') and 'Prefix::len' in v:
                cmpv = labs
        pushed = pushed_
        if fam is None:
            ctx.bad('K4', 'add_roa:family-not-tested',
                    'an iteration of add_roa does not choose the limit by is_v4() of the origin (conditions: %s)' % {k: sorted(v) for k, v in cm.items()})
            continue
        n += 1
        ctx.check(fam_recv_ok, 'K4', 'add_roa:family-of-this-origin',
                  'the address family is taken from the origin being added',
                  'the address family used to choose the limit is not derived from the origin being added (a ROA can carry both families)')
        want = 'limit_v4_len' if fam == 'true' else 'limit_v6_len'
        ctx.check(lim is not None and lim[0] == want, 'K4', 'add_roa:is_v4=%s=>%s' % (fam, want),
                  'is_v4=%s uses %s' % (fam, want), 'for is_v4=%s the limit consulted is %s' % (fam, lim))
        if lim is None:
            continue
        if lim[1] == 'None':
            exp = True
        else:
            exp = cmpv is not None and 'Greater' not in cmpv
            o_ = p.outcome or ''
            if cmpv is None and pred and re.match(r'^(Ge|Le|Gt|Lt)\(', o_) and 'Prefix::len' in o_:
                # the predicate returns the comparison itself: kept iff len <= limit
                m_ = re.match(r'^(Ge|Le|Gt|Lt)\((.*)\)$', o_)
                first_is_len = o_.index('Prefix::len') < len(m_.group(1)) + 2 + 12
                good = (m_.group(1) == 'Le' and first_is_len) or (m_.group(1) == 'Ge' and not first_is_len)
                ctx.check(good, 'K4', 'add_roa:%s=Some,kept<=>len<=limit' % want, 'kept iff prefix length <= limit',
                          'the limit predicate is `%s`: an origin must be kept exactly when its prefix length is at most the limit' % o_[:140])
                continue
            if cmpv is None:
                ctx.bad('K4', 'add_roa:limit-not-compared', 'a set limit is not compared with the prefix length')
                continue
        ctx.check(pushed == exp, 'K4', 'add_roa:%s=%s,len-vs-limit=%s' % (want, lim[1], sorted(cmpv) if cmpv else '-'),
                  'pushed=%s' % pushed,
                  'origin with %s=%s and len-vs-limit=%s has pushed=%s (expected %s)' % (want, lim[1], sorted(cmpv) if cmpv else '-', pushed, exp))
    ctx.floor('K4', 'iteration paths of add_roa', n, 4 if pred else 6)
    # operands of the comparison: prefix length of this origin vs the chosen limit's payload
    for sbb2 in b.switches():
        from lib.tables import order_edges
        o, e2 = b.switch_edges(sbb2)
        oe = order_edges(o, e2)
        if oe and 'Prefix::len' in oe[0]:
            ctx.check('@Some.0' in oe[0] and 'phi(' in oe[0] or 'limit' in oe[0], 'prov', 'add_roa:cmp-operands',
                      'len(origin prefix) is compared with the selected limit', 'comparison is %s' % oe[0])


def rule_slurm_filter(ctx):
    for bpat, dropcall, mapfield in [('payload::validation::SnapshotBuilder::process_origin', 'LocalExceptions::drop_origin', 'origins')]:
        b = ctx.body(bpat)
        for p in enumerate_paths(b, ctx.facts):
            cm = p.cond_map()
            drop = None
            for v, labs in cm.items():
                if v.startswith('call:' + dropcall) and len(labs) == 1:
                    drop = list(labs)[0]
            ins = bool(p.called('HashMap::entry'))
            if drop == 'true':
                ctx.check(not ins, 'K4', 'process_origin:slurm-filtered=>not-inserted', 'SLURM-filtered origins are not inserted',
                          'a SLURM-filtered origin is inserted')
    pk = ctx.body('payload::validation::SnapshotBuilder::process_key')
    ents = pk.calls('HashMap::entry')
    require_guards(ctx, 'K1', pk, ents, [G('!drop_router_key', call='LocalExceptions::drop_router_key', labels={'false'})],
                   'SLURM-filtered router keys are not inserted')


def rule_toggles(ctx):
    for bpat, sink, fld in [
        ('<payload::validation::PubPointProcessor as engine::ProcessPubPoint>::process_router_cert', 'payload::validation::PubPoint::add_router_key', 'enable_bgpsec'),
        ('<payload::validation::PubPointProcessor as engine::ProcessPubPoint>::process_aspa', 'payload::validation::PubPoint::add_aspa', 'enable_aspa'),
    ]:
        b = ctx.body(bpat)
        sinks = b.calls(sink)
        ctx.floor('K1', '%s call' % sink.split('::')[-1], len(sinks), 1)
        require_guards(ctx, 'K1', b, sinks, [G(fld, field=fld, labels={'true'})], 'payload of a disabled type must not be collected')
    who_calls(ctx, 'K3', 'payload::validation::PubPoint::add_router_key',
              ['<payload::validation::PubPointProcessor as engine::ProcessPubPoint>::process_router_cert'])
    who_calls(ctx, 'K3', 'payload::validation::PubPoint::add_aspa',
              ['<payload::validation::PubPointProcessor as engine::ProcessPubPoint>::process_aspa'])
    who_calls(ctx, 'K3', 'payload::validation::PubPoint::add_roa',
              ['<payload::validation::PubPointProcessor as engine::ProcessPubPoint>::process_roa'])
    # add_roa gets the report's limits in the right order
    pr = ctx.body('<payload::validation::PubPointProcessor as engine::ProcessPubPoint>::process_roa')
    for s in pr.calls('payload::validation::PubPoint::add_roa'):
        d3, d4 = arg_desc(s, 3), arg_desc(s, 4)
        ctx.check(d3.endswith('.limit_v4_len') and d4.endswith('.limit_v6_len'), 'prov', 'process_roa:add_roa:limits',
                  'add_roa(.., report.limit_v4_len, report.limit_v6_len)', 'add_roa limits are (%s, %s)' % (d3, d4), loc=s.loc())
    nb = ctx.body('payload::validation::ValidationReport::new')
    for l in agg_sites(nb, 'payload::validation::ValidationReport'):
        rv = l.stmt['rv']
        for f in ('enable_bgpsec', 'enable_aspa', 'limit_v4_len', 'limit_v6_len', 'unsafe_vrps'):
            d = describe(nb.origin_of_operand(rv['ops'][rv['names'].index(f)]))
            ctx.check(d == 'config.' + f, 'prov', 'ValidationReport::new:%s' % f, '%s = config.%s' % (f, f), '%s is initialised from %s' % (f, d))


def rule_order(ctx):
    f = ctx.body('payload::validation::SnapshotBuilder::finalize')
    ia = f.calls('payload::validation::SnapshotBuilder::insert_assertions')
    sn = f.calls('payload::validation::SnapshotBuilder::into_snapshot')
    ctx.floor('K2', 'insert_assertions call', len(ia), 1)
    ctx.floor('K2', 'into_snapshot call', len(sn), 1)
    for s in sn:
        ctx.check(any(f.site_dominates(a, s) for a in ia), 'K2', 'finalize:insert_assertions<into_snapshot',
                  'SLURM assertions are inserted before the snapshot is built', 'snapshot built without inserting SLURM assertions', loc=s.loc())
    who_calls(ctx, 'K3', 'payload::validation::SnapshotBuilder::insert_assertions', ['payload::validation::SnapshotBuilder::finalize'])
    who_calls(ctx, 'K3', 'payload::validation::SnapshotBuilder::finalize', ['payload::validation::ValidationReport::into_snapshot'])
    r = ctx.body('payload::validation::ValidationReport::into_snapshot')
    fin = r.calls('payload::validation::SnapshotBuilder::finalize')
    ppp = r.calls('payload::validation::SnapshotBuilder::process_pub_point')
    for x in fin:
        ctx.check(not any(r.can_reach(x.bb, p.bb) for p in ppp), 'K2', 'into_snapshot:finalize-after-all-points',
                  'finalize (assertions) happens after all validated points were filtered', 'process_pub_point reachable after finalize')
        e, sw = G('no more points', call='SegQueue::pop', labels={'None'}).edges(r)
        ctx.check(bool(sw) and r.path_avoiding(x.bb, avoid_edges=e) is None, 'K2', 'into_snapshot:finalize<=queue-drained',
                  'finalize only after the pub_points queue is drained', 'finalize can happen before all points were processed')


def rule_entry_only(ctx):
    n = 0
    for fld in ('origins', 'router_keys', 'aspas'):
        for pat in ['HashMap::insert', 'HashMap::entry', 'HashMap::remove', 'HashMap::extend', 'HashMap::retain', 'HashMap::get_mut']:
            for s in ctx.facts.callers('std::collections::' + pat):
                if not s.body.nid.startswith('payload::validation::SnapshotBuilder'):
                    continue
                if arg_path(s, 0) != 'self.' + fld:
                    continue
                n += 1
                okm = pat in ('HashMap::entry', 'HashMap::get_mut')
                if pat == 'HashMap::insert':
                    # `if let Some(x) = map.get_mut(k) { merge } else { map.insert(k, v) }` deduplicates as entry() does:
                    # the insert must be reachable only on the absent edge of a lookup in the same map
                    sb = s.body
                    for lk, labs in (('HashMap::get_mut', {'None'}), ('HashMap::get', {'None'}), ('HashMap::contains_key', {'false'})):
                        g = G('absent', call='re:' + lk + '$', labels=labs, pred=lambda c, fld=fld: arg_path(c.site, 0) == 'self.' + fld)
                        e_, sw_ = g.edges(sb)
                        if sw_ and e_ and sb.path_avoiding(s.bb, avoid_edges=e_) is None:
                            okm = True
                ctx.check(okm, 'K3', 'map-mutation:%s:%s<-%s' % (fld, pat.split('::')[-1], s.body.nid),
                          'self.%s is updated through entry() in %s' % (fld, s.body.nid),
                          'self.%s is mutated with %s in %s: deduplication by key is bypassed' % (fld, pat, s.body.nid), loc=s.loc())
    ctx.floor('K3', 'mutations of the result maps', n, 5)


def rule_aspa(ctx):
    b = ctx.body('payload::validation::SnapshotBuilder::process_aspa')
    un = b.calls('SmallAsnSet::union')
    ctx.floor('K4', 'union call in process_aspa', len(un), 1)
    from lib.rules import AnyG
    e, sw = AnyG('customer present', [G('Occupied', call='HashMap::entry', labels={'Occupied'}),
                                      G('get_mut is Some', call='re:HashMap::get_mut$', labels={'Some'})]).edges(b)
    for u in un:
        ctx.check(b.path_avoiding(u.bb, avoid_edges=e) is None, 'K4', 'process_aspa:union<=Occupied', 'union only for an existing customer',
                  'union not tied to the Occupied arm', loc=u.loc())
        d0, d1 = arg_desc(u, 0), arg_desc(u, 1)
        ctx.check('get_mut' in d0 and 'aspa.providers' in d1, 'prov', 'process_aspa:union:operands',
                  'existing.union(new providers)', 'union(%s, %s)' % (d0, d1), loc=u.loc())
    # the union result is stored back in entry.0
    stored = False
    from lib.rules import field_writes
    for site, s in b.stmts():
        if s['s'] == 'assign' and len(s['lhs']) > 1 and s['lhs'][-1] == '.0':
            d = describe(b.origin_of_operand(s['rv']['o'])) if s['rv']['r'] == 'use' else ''
            if 'union' in d:
                stored = True
        elif s['s'] == 'assign' and len(s['lhs']) > 1 and all(x == '*' for x in s['lhs'][1:]) and s['rv']['r'] == 'use':
            # `*providers = union.collect()` with `providers` bound to the first tuple field of the stored entry
            d = describe(b.origin_of_operand(s['rv']['o']))
            tgt = describe(b.origin_of_local(s['lhs'][0]))
            if 'union' in d and tgt.endswith('.0') and ('get_mut' in tgt or 'entry' in tgt):
                stored = True
    for t in b.calls('Iterator::collect'):
        if 'union' not in arg_desc(t, 0):
            continue
        dest = t.term['dest']
        if len(dest) > 1 and dest[-1] == '.0':
            stored = True
        elif len(dest) > 1 and all(x == '*' for x in dest[1:]):
            # `*providers = ..collect()` with `providers` bound to the first tuple field of the stored entry
            dd = describe(b.origin_of_local(dest[0]))
            if dd.endswith('.0') and 'get_mut' in dd:
                stored = True
    ctx.check(stored, 'K4', 'process_aspa:union-stored', 'the union replaces the stored provider set', 'the union result is not stored')
    # ... and it is the WHOLE union: no iterator adaptor (take/filter/skip/...) between union() and collect()
    nwu = 0
    for t in b.calls('Iterator::collect'):
        if 'union' not in arg_desc(t, 0):
            continue
        nwu += 1
        o = b.origin_of_operand(t.term['args'][0])
        while o is not None and o.kind in ('ref', 'cast'):
            o = o.base
        direct = o is not None and o.kind == 'call' and o.callee.endswith('SmallAsnSet::union')
        ctx.check(direct, 'K4', 'process_aspa:whole-union-stored',
                  'the stored provider set is collect(union(existing, new)) without any adaptor in between',
                  'the provider union is passed through `%s` before it is stored: a merged ASPA is truncated/filtered instead of being '
                  'the union (and an oversized union then escapes the too-large test in into_snapshot)'
                  % (o.callee if o is not None and o.kind == 'call' else describe(o)[:60]), loc=t.loc())
    ctx.floor('K4', 'collect of the provider union', nwu, 1)
    # the size test in into_snapshot sees the whole stored set
    for c in [c for c in ctx.closures(ctx.body('payload::validation::SnapshotBuilder::into_snapshot')) if c.calls('ProviderAsns::try_from_iter')]:
        for t in c.calls('ProviderAsns::try_from_iter'):
            d = arg_desc(t, 0)
            ctx.check(bool(re.match(r'^call:SmallAsnSet::iter\([^()]*\)$', d)),
                      'K4', 'into_snapshot:size-test-on-whole-set',
                      'the encodability test is applied to the complete provider set (%s)' % d,
                      'ProviderAsns::try_from_iter is applied to `%s`, not to the complete provider set' % d, loc=t.loc())
    s = ctx.body('payload::validation::SnapshotBuilder::into_snapshot')
    cls = [c for c in ctx.closures(s) if c.calls('ProviderAsns::try_from_iter')]
    direct = s.calls('ProviderAsns::try_from_iter')
    ctx.floor('K4', 'size-limit closure in into_snapshot', len(cls) + len(direct), 1)
    for t in direct:
        d = arg_desc(t, 0)
        ctx.check(bool(re.match(r'^call:SmallAsnSet::iter\(.*\)$', d)) and 'filter' not in d and 'take' not in d,
                  'K4', 'into_snapshot:size-test-on-whole-set',
                  'the encodability test is applied to the complete provider set (%s)' % d[:80],
                  'ProviderAsns::try_from_iter is applied to `%s`, not to the complete provider set' % d[:120], loc=t.loc())
    if direct:
        # the conversion as an explicit loop: after an Ok the set is pushed, after an Err nothing is, before the next set
        from lib.tables import timeline, strip_suffix
        n_ok = n_err = 0
        bad = None
        for p in enumerate_paths(s, ctx.facts, max_visits=2):
            state = None
            for tl in timeline(p):
                if tl[0] == 'cond' and strip_suffix(tl[1]).startswith('call:ProviderAsns::try_from_iter') and len(tl[2]) == 1:
                    if state == 'Ok':
                        bad = bad or 'an encodable set is not pushed before the next one is converted'
                    state = list(tl[2])[0]
                    n_ok += state == 'Ok'
                    n_err += state == 'Err'
                elif tl[0] == 'ev' and tl[1].callee.endswith('::push') and 'Vec' in tl[1].callee:
                    if state == 'Err':
                        bad = bad or 'an unencodable set is pushed'
                    elif state == 'Ok':
                        state = None
            if state == 'Ok' and p.kind == 'return':
                bad = bad or 'an encodable set is not pushed'
        ctx.check(bad is None and n_ok and n_err, 'K4', 'into_snapshot:too-large=>dropped', 'encodable sets are kept, unencodable ones dropped',
                  'into_snapshot: %s' % (bad or 'the conversion loop has no Ok/Err rows'))
    for c in cls:
        for p in enumerate_paths(c, ctx.facts):
            cm = p.cond_map()
            res = None
            for v, labs in cm.items():
                if v.startswith('call:ProviderAsns::try_from_iter') and len(labs) == 1:
                    res = list(labs)[0]
            if res == 'Err':
                ctx.check(p.outcome == 'Option::None()', 'K4', 'into_snapshot:too-large=>dropped', 'an unencodable union is dropped',
                          'an unencodable union yields %s' % p.outcome)
            elif res == 'Ok':
                ctx.check(p.outcome.startswith('Option::Some'), 'K4', 'into_snapshot:encodable=>kept', 'an encodable union is kept',
                          'an encodable union yields %s' % p.outcome)


def rule_assertions_unfiltered(ctx):
    """SLURM assertions are ADDED after filtering: every asserted item reaches the result map, no test can skip it."""
    b = ctx.body('payload::validation::SnapshotBuilder::insert_assertions')
    heads = sorted(set(h for _t, h in b.back_edges()))
    ctx.floor('K4', 'assertion loops in insert_assertions', len(heads), 2)
    n = 0
    for h in heads:
        for p in enumerate_paths(b, ctx.facts, start=h):
            cm = p.cond_map()
            nxt = [labs for v, labs in cm.items() if re.match(r'^call:Iterator>?::next\(', v)]
            if not nxt or nxt[0] != {'Some'}:
                continue
            n += 1
            ins = p.called('re:HashMap.*::entry$')
            ctx.check(bool(ins), 'K4', 'insert_assertions:every-assertion-inserted',
                      'an asserted item always goes through entry() of its result map',
                      'insert_assertions has an iteration that skips the asserted item (conditions %s): SLURM assertions must be '
                      'added to the filtered payload unconditionally' % {k[:50]: sorted(map(str, v)) for k, v in cm.items() if 'next' not in k},
                      loc=p.ret_site.loc() if p.ret_site else None)
    ctx.floor('K4', 'iteration paths of insert_assertions', n, 4)
    bad = b.calls(['slurm::LocalExceptions::drop_origin', 'slurm::LocalExceptions::drop_router_key'])
    ctx.check(not bad, 'K4', 'insert_assertions:filters-not-consulted', 'the SLURM filters are not consulted for assertions',
              'insert_assertions consults the SLURM filters (%s)' % [x.callee.split('::')[-1] for x in bad])


RULES = [rule_assertions_unfiltered, rule_add_roa, rule_slurm_filter, rule_toggles, rule_order, rule_entry_only, rule_aspa]
