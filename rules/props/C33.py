"""C33 A failed run never changes the served data (K1 + K3)."""
from lib.facts import callee_matches, norm
from lib.rules import edges_from_call, who_calls, k3_field_writers, field_writes, fmt_path, G, arg_path, arg_desc
from lib.facts import Site

META = dict(
    level='other',
    explanation=(
        'Guard-dominance (K1) in operation::Server::process_once: the calls that change served state '
        '(SharedHistory::update, SharedHistory::mark_update_done, NotifySender::notify) are reachable only through '
        'the Ok edge of the ValidationReport::process result. Who-may (K3): those three have no other caller; '
        'every write to a PayloadHistory field (assignment or &mut borrow, resolved by owning ADT in MIR) lies in '
        '{SharedHistory::update, mark_update_start, mark_update_done, PayloadHistory::push_delta}; the only write '
        'before the run (mark_update_start) touches only last_update_start; the write lock of the history is taken '
        'only in SharedHistory::write which is called only by those three bodies.'),
    decides='every path on which a run fails leaves data set, serial (deltas), session, created (ETag/Last-Modified inputs) and the notifier untouched',
    undecided='interior state of the Engine/store after a failed run (not served data)',
    trusted_base=['rustc MIR construction + callee resolution'],
    rules=['K1 update/mark_update_done/notify dominated by Ok edge of run', 'K3 callers', 'K3 field writers of PayloadHistory'],
)

RUN = 'payload::validation::ValidationReport::process'
MUTATORS = ['payload::history::SharedHistory::update', 'payload::history::SharedHistory::mark_update_done',
            'rpki::rtr::server::NotifySender::notify']


def rule_guard(ctx):
    b = ctx.body('operation::Server::process_once')
    pass_edges, other, sw = edges_from_call(b, RUN, {'Ok', 'pass'})
    ctx.floor('K1', 'switch on the run result in process_once', len(sw), 1)
    for m in MUTATORS:
        sites = b.calls(m)
        ctx.floor('K1', 'call of %s in process_once' % m.split('::')[-1], len(sites), 1)
        for s in sites:
            ctx.call_sites += 1
            p = b.path_avoiding(s.bb, avoid_edges=pass_edges)
            ctx.check(p is None and bool(pass_edges), 'K1', 'process_once:%s<=Ok(run)' % m.split('::')[-1],
                      '%s is reachable only through the Ok edge of the validation run' % m,
                      '%s can execute although the validation run did not succeed' % m,
                      loc=s.loc(), path=fmt_path(b, p))
            ctx.sample(dict(mutator=m, at=s.loc(), guarded_by='Ok edge of %s' % RUN))
    # anything executed before the run result is known may only be mark_update_start / logging
    runs = b.calls(RUN)
    for r in runs:
        for s in b.calls():
            if s.bb == r.bb or not b.can_reach(s.bb, r.bb):
                continue
            nm = s.callee
            if nm.startswith('payload::') or nm.startswith('rpki::rtr'):
                ctx.check(nm.endswith('SharedHistory::mark_update_start'), 'K1', 'process_once:pre-run:%s' % nm,
                          'only mark_update_start touches the history before the run',
                          '%s is called on the history before the run result is known' % nm, loc=s.loc())


def rule_callers(ctx):
    who_calls(ctx, 'K3', 'payload::history::SharedHistory::update', ['operation::Server::process_once'])
    who_calls(ctx, 'K3', 'payload::history::SharedHistory::mark_update_done', ['operation::Server::process_once'])
    who_calls(ctx, 'K3', 'rpki::rtr::server::NotifySender::notify', ['operation::Server::process_once'])
    who_calls(ctx, 'K3', 'payload::history::SharedHistory::write',
              ['payload::history::SharedHistory::update', 'payload::history::SharedHistory::mark_update_start',
               'payload::history::SharedHistory::mark_update_done'], floor=3)
    # the raw lock
    n = 0
    for s in ctx.facts.callers('std::sync::RwLock::write'):
        targs = s.term['fn'].get('targs') or []
        if any('PayloadHistory' in t for t in targs):
            n += 1
            ctx.check(s.body.nid.endswith('SharedHistory::write'), 'K3', 'rawlock<-%s' % s.body.nid,
                      'RwLock<PayloadHistory>::write only in SharedHistory::write',
                      'RwLock<PayloadHistory>::write is taken in %s' % s.body.nid, loc=s.loc())
    ctx.floor('K3', 'RwLock<PayloadHistory>::write sites', n, 1)


def rule_fields(ctx):
    allowed = ['payload::history::SharedHistory::update', 'payload::history::SharedHistory::mark_update_start',
               'payload::history::SharedHistory::mark_update_done', 'payload::history::PayloadHistory::push_delta',
               'payload::history::PayloadHistory::from_config']
    k3_field_writers(ctx, 'K3', 'payload::history::PayloadHistory', allowed, floor=8)
    b = ctx.body('payload::history::SharedHistory::mark_update_start')
    for site, how, adt, f, place in field_writes(b):
        if adt.endswith('PayloadHistory'):
            ctx.check(f == 'last_update_start', 'K3', 'mark_update_start:writes:%s' % f,
                      'mark_update_start (runs before the validation) writes only last_update_start',
                      'mark_update_start writes served-state field %s before the run outcome is known' % f,
                      loc=site.loc())


def rule_failure_reported(ctx):
    """A run in which a task failed must be reported as failed (otherwise process_once installs partial data)."""
    # (a) run_failed always raises had_err
    rf = ctx.body('engine::Run::run_failed')
    stores = [s for s in rf.calls(['AtomicBool::store', 'atomic::Atomic::store']) if 'had_err' in arg_path(s, 0)]
    ctx.floor('K1', 'had_err.store in run_failed', len(stores), 1)
    for r in rf.returns():
        p = rf.path_avoiding(r.bb, avoid_nodes=[s.bb for s in stores])
        ok = p is None and all(str(arg_desc(s, 1)) == 'const(1)' for s in stores)
        ctx.check(ok, 'K1', 'run_failed:always-sets-had_err',
                  'run_failed sets had_err=true on every path',
                  'run_failed can return without setting had_err=true: a failed task (e.g. a fatal error) is then not '
                  'reflected in the result of Run::process and the partial result is installed as new served data',
                  loc=rf.file + ':%d' % rf.line, path=fmt_path(rf, p))
    # (b) Run::process returns Ok after the workers only on the false edge of had_err.load
    pb = ctx.body('engine::Run::process')
    scope = pb.calls('std::thread::scope')
    ctx.floor('K1', 'thread::scope in Run::process', len(scope), 1)
    e, sw = G('had_err not set', call=['AtomicBool::load', 'atomic::Atomic::load'], labels={'false'}, recv='had_err').edges(pb)
    ctx.floor('K1', 'had_err.load switch in Run::process', len(sw), 1)
    n = 0
    for site, st in pb.stmts():
        if st['s'] == 'assign' and st['lhs'] == [0] and st['rv']['r'] == 'agg' and st['rv'].get('variant') == 'Ok':
            if scope and pb.can_reach(scope[0].bb, site.bb):
                n += 1
                p = pb.path_avoiding(site.bb, avoid_edges=e, start=scope[0].bb)
                ctx.check(p is None, 'K1', 'Run::process:Ok<=!had_err',
                          'after the worker threads finished, Ok(()) is returned only if had_err is false',
                          'Run::process can return Ok(()) after the workers although had_err was set', loc=site.loc(), path=fmt_path(pb, p))
    ctx.floor('K1', 'Ok returns after the worker scope', n, 1)
    # (c) a worker that stops on a task error has had_err raised
    ws = [c for c in ctx.closures(pb) if c.calls('engine::Run::process_task')]
    ctx.floor('K1', 'worker closure', len(ws), 1)
    for w in ws:
        fe, fsw = G('task failed', call='engine::Run::process_task', labels={'Err', 'fail'}).edges(w)
        ctx.floor('K1', 'switch on process_task result', len(fsw), 1)
        marks = w.calls('engine::Run::run_failed')
        he, hsw = G('had_err already set', call=['AtomicBool::load', 'atomic::Atomic::load'], labels={'true'}, recv='had_err').edges(w)
        for (sbb, tb) in fe:
            for r in w.returns():
                p = w.path_avoiding(r.bb, avoid_nodes=[m.bb for m in marks], avoid_edges=he, start=tb)
                ctx.check(p is None, 'K1', 'worker:task-error=>had_err',
                          'a worker leaving its loop because a task failed has had_err raised (run_failed or already set)',
                          'a worker can stop on a failed task (Err from process_task, e.g. an I/O error while loading or '
                          'storing a trust anchor in process_tal_task) without had_err being set: Run::process then returns '
                          'Ok and the partial report replaces the served data', loc=Site(w, sbb).loc(), path=fmt_path(w, p))


def rule_run_phases(ctx):
    """ValidationReport::process hands out a report only if starting, processing AND cleaning up all succeeded."""
    from lib.rules import G, require_guards
    b = ctx.body('payload::validation::ValidationReport::process')
    oks = [site for site, st in b.stmts() if st['s'] == 'assign' and st['lhs'] == [0] and st['rv']['r'] == 'agg' and st['rv'].get('variant') == 'Ok']
    ctx.floor('K1', 'Ok return of ValidationReport::process', len(oks), 1)
    require_guards(ctx, 'K1', b, oks, [
        G('Ok(Engine::start)', call='engine::Engine::start', labels={'Ok', 'pass'}),
        G('Ok(Run::process)', call='engine::Run::process', labels={'Ok', 'pass'}),
        G('Ok(Run::cleanup)', call='engine::Run::cleanup', labels={'Ok', 'pass'}),
    ], 'a run whose start, processing or cleanup phase failed is a failed run: its report must not reach SharedHistory::update')


RULES = [rule_run_phases, rule_guard, rule_callers, rule_fields, rule_failure_reported]
