"""C07 Validation terminates on deep or cyclic CA hierarchies (K3, K4 + ranking argument)."""
import re
from lib.facts import norm
from lib.rules import G, arg_desc, who_calls, agg_sites, arg_path
from lib.tables import enumerate_paths, describe

from lib.tables import strip_suffix  # noqa: E402

META = dict(
    level='other',
    explanation=(
        'Structural termination argument. K3: CaCert values are constructed only in CaCert::new, which is called only from '
        'root (chain_len 0, no parent) and chain; CaTask values for issued CAs are built only in process_ca_cer from the Ok '
        'value of CaCert::chain (C01). K4 on CaCert::chain: chain_len = issuer.chain_len.checked_add(1) (overflow -> Err), '
        'chain_len > max_depth -> Err, otherwise new(.., parent = issuer, chain_len, ..) - so the only edge that creates work '
        '(parent -> child task) strictly increases chain_len, bounded by max-ca-depth, and children per CA are bounded by the '
        'manifest length: the ranking (max_depth - chain_len) proves termination. K4 on the loop check: check_loop hands the '
        'candidate\'s subject key identifier to _check_loop; on every path that returns Ok the key of the LAST node visited '
        '(the one without parent, i.e. the trust anchor) has been compared too, Equal -> Err at every node, and the walk '
        'follows `parent` with the same key; process_ca_cer consults check_loop on the issuing CA (self.cert) before '
        'accepting the child.'),
    decides='the ranking argument for termination; loop check covers every node of the chain including the trust anchor; depth limit',
    undecided='termination of code outside the crate; validation thread scheduling',
    trusted_base=['rustc MIR construction + callee resolution'],
    rules=['K3 CaCert constructors', 'K4 CaCert::chain', 'K4 _check_loop covers whole chain', 'ranking argument'],
)


def rule_ctor(ctx):
    n = 0
    for raw, line in ctx.facts._lines.items():
        if 'CaCert' not in line:
            continue
        b = ctx.facts.body_raw(raw)
        if b.rec.get('derive'):
            continue
        for s in agg_sites(b, 'engine::CaCert'):
            n += 1
            ctx.check(b.nid == 'engine::CaCert::new', 'K3', 'CaCert-ctor<-%s' % b.nid, 'CaCert built in new()',
                      'a CaCert is constructed in %s: chain length / parent link are no longer controlled by root/chain' % b.nid, loc=s.loc())
    ctx.floor('K3', 'CaCert constructors', n, 1)
    who_calls(ctx, 'K3', 'engine::CaCert::new', ['engine::CaCert::root', 'engine::CaCert::chain'], floor=2)
    who_calls(ctx, 'K3', 'engine::CaCert::chain', ['engine::PubPoint::process_ca_cer'])
    who_calls(ctx, 'K3', 'engine::CaCert::root', ['engine::Run::process_tal_task'])
    r = ctx.body('engine::CaCert::root')
    for s in r.calls('engine::CaCert::new'):
        ctx.check(arg_desc(s, 2) == 'Option::None()' and arg_desc(s, 3) == 'const(0)', 'K4', 'CaCert::root:no-parent,len0',
                  'a root has no parent and chain_len 0', 'root builds new(parent=%s, chain_len=%s)' % (arg_desc(s, 2), arg_desc(s, 3)))


def rule_chain(ctx):
    b = ctx.body('engine::CaCert::chain')
    paths = enumerate_paths(b, ctx.facts)
    seen = set()
    for p in paths:
        cm = p.cond_map()
        add = [labs for v, labs in cm.items() if v.startswith('call:<impl usize>::checked_add(issuer.chain_len,const(1))') or 'checked_add(issuer.chain_len' in v]
        cmpv = [(v, labs) for v, labs in cm.items() if v.startswith('cmp(') and 'max_depth' in v]
        o = p.outcome
        if add and set(add[0]) <= {'None', 'fail'}:
            seen.add('overflow')
            ctx.check(o.startswith('Result::Err'), 'K4', 'chain:overflow=>Err', 'depth counter overflow is an error', 'overflow -> %s' % o)
        elif cmpv:
            v, labs = cmpv[0]
            first_is_len = v.index('checked_add') < v.index('max_depth') if 'checked_add' in v else True
            too_deep = (labs == {'Greater'}) if first_is_len else (labs == {'Less'})
            if too_deep:
                seen.add('too-deep')
                ctx.check(o.startswith('Result::Err'), 'K4', 'chain:len>max=>Err', 'beyond max depth is an error', 'too deep -> %s' % o)
            else:
                seen.add('ok')
                ctx.check(labs in ({'Equal', 'Less'}, {'Equal', 'Greater'}), 'K4', 'chain:limit-is-inclusive', 'chain_len == max_depth still accepted',
                          'depth comparison accepts %s' % sorted(labs))
                ctx.check(o.startswith('call:CaCert::new'), 'K4', 'chain:ok=>new', 'within depth: CaCert::new', 'within depth -> %s' % o)
        elif not add:
            ctx.bad('K4', 'chain:no-depth-arithmetic', 'a path of CaCert::chain neither increments nor compares the depth: %s' % o)
    ctx.check(seen == {'overflow', 'too-deep', 'ok'}, 'K4', 'chain:all-rows', 'overflow / too deep / ok rows present', 'rows: %s' % sorted(seen))
    for s in b.calls('engine::CaCert::new'):
        par, ln = arg_desc(s, 2), arg_desc(s, 3)
        ctx.check(par == 'Option::Some(issuer)', 'K4', 'chain:parent=issuer', 'parent link = issuer', 'parent link = %s' % par, loc=s.loc())
        ctx.check('checked_add(issuer.chain_len,const(1))' in ln, 'K4', 'chain:len=issuer+1', 'chain_len = issuer.chain_len + 1', 'chain_len = %s' % ln, loc=s.loc())
        ctx.sample(dict(new_call=s.loc(), parent=par, chain_len=ln))
    ctx.extra['ranking_argument'] = ('every queued or recursive CaTask carries a CaCert from CaCert::chain, whose chain_len is '
                                     'parent.chain_len + 1 <= max_ca_depth; a task only produces tasks for certificates listed on its '
                                     '(finite) manifest; hence the task tree has depth <= max_ca_depth and finite branching')


def rule_loop(ctx):
    cl = ctx.body('engine::CaCert::check_loop')
    for s in cl.calls('engine::CaCert::_check_loop'):
        ctx.check(arg_desc(s, 0) == 'self' and 'subject_key_identifier(cert' in arg_desc(s, 1).replace(' ', ''), 'K4', 'check_loop:args',
                  'walk starts at self with the candidate\'s key identifier', 'check_loop calls _check_loop(%s, %s)' % (arg_desc(s, 0), arg_desc(s, 1)))
    b = ctx.body('engine::CaCert::_check_loop')
    try:
        paths = enumerate_paths(b, ctx.facts, max_visits=2)
    except RuntimeError:
        ctx.bad('K4', '_check_loop:shape', 'too many paths (shape not recognised)')
        return
    n_ok = 0
    for p in paths:
        if p.kind != 'return':
            continue
        cm = p.cond_map()
        o = p.outcome
        eqs = [(v, labs) for v, labs in cm.items() if v.startswith('cmp(') and 'subject_key_identifier' in v and 'key_id' in v]
        par = [(v, labs) for v, labs in cm.items() if strip_suffix(v).endswith('.parent')]
        if o.startswith('Result::Ok'):
            n_ok += 1
            # every node on the walk is compared: one comparison for the start node plus one per step to a parent
            steps = sum(1 for v, labs, _bb in p.conds if re.search(r'\.parent\)*$', strip_suffix(v)) and set(labs) == {'Some'})
            ends = sum(1 for v, labs, _bb in p.conds if re.search(r'\.parent\)*$', strip_suffix(v)) and set(labs) == {'None'})
            cmps = sum(1 for v, labs, _bb in p.conds if v.startswith('cmp(') and 'subject_key_identifier' in v and 'key_id' in v and 'Equal' not in labs)
            good = ends >= 1 and cmps == steps + 1
            ctx.check(good, 'K4', '_check_loop:Ok=>root-key-compared',
                      'Ok is returned only after the key of the parent-less node (trust anchor) was compared too',
                      '_check_loop can return Ok without having compared the key of the last node of the chain (the one without a '
                      'parent, i.e. the trust anchor): conditions %s' % {k: sorted(v) for k, v in cm.items()},
                      loc=p.ret_site.loc() if p.ret_site else None)
        elif o.startswith('Result::Err'):
            ctx.check(any(labs == {'Equal'} for _v, labs in eqs), 'K4', '_check_loop:Err<=key-equal', 'Err on an equal key', 'Err without key equality')
        elif '_check_loop' in o:
            ctx.check(bool(re.search(r'_check_loop\(self\.parent@Some\.0,key_id\)', o)) and any('Equal' not in l for _v, l in eqs), 'K4',
                      '_check_loop:recurse-on-parent-same-key', 'recurses on the parent with the same key after comparing self',
                      'recursion is %s under %s' % (o, [(v, sorted(l)) for v, l in eqs]))
    ctx.floor('K4', 'Ok paths of _check_loop', n_ok, 1)
    pc = ctx.body('engine::PubPoint::process_ca_cer')
    for s in pc.calls('engine::CaCert::check_loop'):
        ctx.check(arg_desc(s, 0) == 'self.cert' and arg_desc(s, 1) == 'cert', 'K4', 'process_ca_cer:check_loop:args',
                  'the issuing CA\'s chain is searched for the child\'s key', 'check_loop(%s, %s)' % (arg_desc(s, 0), arg_desc(s, 1)), loc=s.loc())


def rule_overrun_is_local(ctx):
    """A too-deep or looping CA certificate is dropped and processing continues: its Err never leaves process_ca_cer."""
    from lib.tables import enumerate_paths
    import re as _re
    b = ctx.body('engine::PubPoint::process_ca_cer')
    n = 0
    for p in enumerate_paths(b, ctx.facts):
        if p.kind != 'return':
            continue
        cm = p.cond_map()
        failed = None
        for v, labs in cm.items():
            if 'CaCert::chain' in v and labs and set(labs) <= {'Err', 'fail'}:
                failed = 'depth limit (CaCert::chain)'
            if _re.search(r'is_err\(call:CaCert::check_loop|CaCert::check_loop', v) and (
                    (set(labs) <= {'true'} and 'is_err' in v) or (set(labs) <= {'Err', 'fail'} and 'is_err' not in v)):
                failed = failed or 'loop test (CaCert::check_loop)'
        if failed is None:
            continue
        n += 1
        ctx.check((p.outcome or '').startswith('Result::Ok('), 'K4', 'process_ca_cer:%s=>dropped-locally' % failed.split(' (')[0].replace(' ', '-'),
                  'a CA certificate failing the %s is dropped (Ok) and the rest of the tree is processed' % failed,
                  'a CA certificate failing the %s makes process_ca_cer return `%s`: an Err here ends the WHOLE validation run '
                  '(it propagates to process_ca_task -> run_failed) instead of just dropping that CA' % (failed, (p.outcome or '')[:80]),
                  loc=p.ret_site.loc() if p.ret_site else None)
    ctx.floor('K4', 'paths of process_ca_cer on which the depth/loop test fails', n, 2)


RULES = [rule_ctor, rule_chain, rule_loop, rule_overrun_is_local]
