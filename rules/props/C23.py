"""C23 A crash at any point never corrupts the store or blocks later runs (K12 write protocol)."""
import re
from lib.facts import norm, Site
from lib.rules import G, require_guards, arg_desc, who_calls, arg_path, fmt_path
from lib.tables import enumerate_paths, describe

META = dict(
    level='other',
    explanation=(
        'Write-protocol rule (K12): for every persistent file class of the store, either all writers are atomic (temp file in '
        'the same file system + rename) or every reader maps an incomplete / ill-formed file to "absent", never to a fatal '
        'error. Point files: the only writer of manifest+objects is StoredPoint::_update via Store::tmp_file + '
        'NamedTempFile::persist (C04); create/open/reject rewrite the header in place, so StoredPoint::open must map a '
        'non-fatal header parse error to create() (recreate) - and a truncated record must stay non-fatal: every binio '
        'parser obtains its bytes through Read::read_exact only (std reports UnexpectedEof on a short read) and '
        'ParseError::from(io::Error) classifies exactly UnexpectedEof as non-fatal. Trust-anchor files: written in place by '
        'update_ta, read through Cert::decode(..).ok() in engine::load_ta (undecodable = absent). Status file: written in '
        'place by store::Run::done; Store::status must return Ok(None) for a non-fatal parse error, because '
        'Engine::store_status()? sits on the `vrps --update-after` path.'),
    decides='per file class: atomic writer or tolerant reader, on every path of the readers',
    undecided='the "same data set as an uninterrupted run" clause; fsync/ordering guarantees of the file system',
    trusted_base=['rustc MIR construction + callee resolution', 'std Read::read_exact returns UnexpectedEof on short input', 'rename(2) atomicity'],
    rules=['K12 point file', 'K12 TA file', 'K12 status file', 'binio short-read classification'],
)


def rule_point_file(ctx):
    b = ctx.body('store::StoredPoint::open')
    hr = b.calls('store::StoredPointHeader::read')
    ctx.floor('K12', 'header read in StoredPoint::open', len(hr), 1)
    seen = set()
    for p in enumerate_paths(b, ctx.facts):
        cm = p.cond_map()
        h = [labs for v, labs in cm.items() if re.match(r'^call:StoredPointHeader::read\(', v) and '@' not in v.split(')')[-1]]
        fatal = [labs for v, labs in cm.items() if 'ParseError::is_fatal' in v]
        if h and h[0] == {'Err'}:
            if fatal and fatal[0] == {'false'}:
                seen.add('torn')
                ctx.check(bool(p.called('store::StoredPoint::create')) and 'StoredPoint::create' in p.outcome, 'K12', 'open:torn-header=>recreate',
                          'an incomplete / ill-formed header makes open() recreate the point', 'a non-fatal header error yields %s' % p.outcome)
            elif fatal and fatal[0] == {'true'}:
                seen.add('fatal')
            else:
                ctx.bad('K12', 'open:header-error-unclassified', 'open() handles a header read error without asking is_fatal(): a torn header written in '
                        'place by create/open/reject would abort every later run')
    ctx.check({'torn', 'fatal'} <= seen, 'K12', 'open:header-error-rows', 'torn and fatal header errors are distinguished', 'rows seen: %s' % sorted(seen))
    nf = ctx.body('store::StoredPoint::open')
    # File::open NotFound -> create
    fr = ctx.body('<utils::binio::ParseError as std::convert::From>::from')
    ok = False
    for site, st in fr.stmts():
        if st['s'] == 'assign' and st['rv']['r'] == 'agg' and 'names' in st['rv'] and 'is_fatal' in st['rv']['names']:
            d = describe(fr.origin_of_operand(st['rv']['ops'][st['rv']['names'].index('is_fatal')]))
            ok = bool(re.match(r'^call:PartialEq::ne\(call:Error::kind\(err\),ErrorKind::UnexpectedEof\(\)\)$', d)) or ('UnexpectedEof' in d and ('ne(' in d or 'Ne(' in d))
            ctx.check(ok, 'K12', 'ParseError::from:eof-is-non-fatal', 'is_fatal = (kind != UnexpectedEof)', 'is_fatal = %s' % d, loc=site.loc())
    ctx.check(ok, 'K12', 'ParseError::from:shape', 'classification found', 'ParseError::from(io::Error) classification not recognised')
    # binio parsers read through read_exact only
    n = 0
    for bb in ctx.facts.all_bodies():
        if not bb.file.endswith('src/utils/binio.rs') or bb.rec.get('derive'):
            continue
        makes_eof = any(st['s'] == 'assign' and ((st['rv']['r'] == 'agg' and st['rv'].get('variant') == 'UnexpectedEof') or
                                                 'UnexpectedEof' in str(st['rv'].get('o', ''))) for _site, st in bb.stmts())
        for s in bb.calls(['std::io::Read::read', 'std::io::Read::read_to_end', 'std::io::Read::take', 'std::io::Read::read_to_string',
                           'std::io::Read::read_buf', 'std::io::Read::bytes']):
            if makes_eof:
                continue   # a manual read loop that reports a short read as UnexpectedEof itself
            n += 1
            ctx.bad('K12', 'binio:short-read-classification:%s' % bb.nid,
                    '%s obtains bytes with %s instead of read_exact: a short read is then not reported as io::ErrorKind::UnexpectedEof, '
                    'ParseError::from classifies the error as fatal and a record truncated by a kill (in-place header rewrite) is no '
                    'longer recreated but aborts every later run' % (bb.nid, s.callee.split('::')[-1]), loc=s.loc())
        for site, st in bb.stmts():
            if st['s'] == 'assign' and st['rv']['r'] == 'agg' and norm(st['rv'].get('adt') or '').endswith('io::ErrorKind') and st['rv'].get('variant') not in ('InvalidData', 'UnexpectedEof', 'Other'):
                ctx.bad('K12', 'binio:error-kind:%s' % bb.nid, '%s constructs io::ErrorKind::%s' % (bb.nid, st['rv'].get('variant')), loc=site.loc())
    rex = ctx.facts.callers('std::io::Read::read_exact')
    nre = len([s for s in rex if s.body.file.endswith('src/utils/binio.rs')])
    ctx.floor('K12', 'read_exact call sites in binio', nre, 6)
    ctx.ok('K12', 'binio:reads-only-via-read_exact', '%d read_exact sites, %d other read primitives in utils::binio' % (nre, n)) if n == 0 else None
    who_calls(ctx, 'K12', 'tempfile::NamedTempFile::persist', ['store::StoredPoint::_update'])
    tf = ctx.body('store::Store::tmp_file')
    d = ' '.join(arg_desc(s, i) for s in tf.calls(['tempfile::NamedTempFile::new_in', 'tempfile::Builder::tempfile_in']) for i in range(len(s.term['args'])))
    ctx.check('self.path' in d or 'tmp' in d, 'K12', 'tmp_file:same-filesystem', 'temp files are created below the store directory (same file system as the target)', 'temp file location: %s' % d)


def rule_ta(ctx):
    lt = ctx.body('engine::Run::load_ta')
    from props.C10 import stored_copy_semantics
    _dec, ok = stored_copy_semantics(ctx, lt)
    ctx.check(ok, 'K12', 'engine::load_ta:stored-ta-undecodable=>absent', 'a torn stored TA certificate is treated as absent (decode(..).ok())',
              'the stored trust anchor certificate is no longer read tolerantly: update_ta writes it in place, a torn file must count as absent')
    sl = ctx.body('store::Run::load_ta')
    ctx.check(bool(sl.calls('utils::fatal::read_existing_file')), 'K12', 'store::load_ta:missing=>None', 'a missing TA file is not an error', 'TA reader changed')


def rule_status(ctx):
    b = ctx.body('store::Store::status')
    seen = set()
    from lib.tables import expand_helper_conds
    for p in enumerate_paths(b, ctx.facts):
        cm = p.cond_map()
        rd = [labs for v, labs in cm.items() if re.match(r'^call:StoredStatus::read\(', v) and '@' not in v.split(')')[-1]]
        fatal = [labs for v, labs in cm.items() if 'ParseError::is_fatal' in v]
        if rd and rd[0] == {'Err'}:
            if fatal and fatal[0] == {'false'}:
                seen.add('torn')
                ctx.check(p.outcome == 'Result::Ok(Option::None())', 'K12', 'Store::status:torn=>None', 'a torn status file counts as no status', 'torn status -> %s' % p.outcome)
            elif not fatal:
                seen.add('unclassified')
                ctx.check(not p.outcome.startswith('Result::Err'), 'K12', 'Store::status:torn=>None',
                          'status parse errors are not fatal',
                          'Store::status turns every parse error of status.bin into Err(Failed); store::Run::done writes that file in place '
                          '(create, then write), so a kill in between leaves an empty file and `vrps --update-after` (Engine::store_status()?) '
                          'fails on every later invocation', loc=p.ret_site.loc() if p.ret_site else None)
    ctx.check(bool(seen), 'K12', 'Store::status:error-rows', 'parse errors of the status file are handled (%s)' % sorted(seen), 'no error handling found')
    d = ctx.body('store::Run::done')
    atomic = bool(d.calls(['tempfile::NamedTempFile::persist', 'std::fs::rename']))
    ctx.extra['status_writer_atomic'] = atomic
    # who depends on it
    cs = ctx.facts.callers('store::Store::status')
    ctx.floor('K12', 'readers of the status file', len(cs), 1)


DESTRUCTIVE = ['utils::fatal::remove_file', 'std::fs::remove_file', 'std::fs::File::create', 'std::fs::write', 'std::fs::rename',
               'utils::fatal::remove_dir_all', 'std::fs::remove_dir_all', 'std::fs::File::set_len']


def rule_replace_by_rename_only(ctx):
    """The stored version stays in place until the rename: nothing removes/truncates the target path before persist()."""
    n = 0
    for b in ctx.facts.all_bodies():
        if not b.file.endswith('src/store.rs') or '::test::' in b.nid:
            continue
        ps = b.calls('tempfile::NamedTempFile::persist')
        if not ps:
            continue
        ctx.bodies.add(b.nid)
        for pc in ps:
            n += 1
            target = arg_path(pc, 1)
            bad = []
            for d in b.calls(DESTRUCTIVE):
                if not b.can_reach(d.bb, pc.bb):
                    continue
                paths = [arg_path(d, i) for i in range(len(d.term['args']))]
                if any(pp == target or (target and pp.startswith(target)) for pp in paths):
                    bad.append(d)
            ctx.check(not bad, 'K12', '%s:old-version-kept-until-rename' % b.nid,
                      'nothing removes or truncates %s before the temp file is renamed over it' % target,
                      '%s calls %s on %s before NamedTempFile::persist: a crash (or a failing rename) in between leaves NO stored '
                      'version of the publication point - the atomic replace-by-rename protocol is broken'
                      % (b.nid, [x.callee for x in bad], target), loc=(bad[0].loc() if bad else pc.loc()))
    ctx.floor('K12', 'persist sites in store.rs', n, 1)


def rule_tmp_location(ctx):
    """Half-written files never appear where readers look: temp files are created in the store's private tmp directory."""
    n = 0
    for b in ctx.facts.all_bodies():
        if not b.file.endswith('src/store.rs') or '::test::' in b.nid:
            continue
        for s_ in b.calls(['tempfile::NamedTempFile::new_in', 'tempfile::Builder::tempfile_in', 'tempfile::tempfile_in']):
            n += 1
            ctx.bodies.add(b.nid)
            d = describe(b.origin_of_operand(s_.term['args'][-1] if s_.callee.endswith('new_in') else s_.term['args'][-1]))
            ok = 'self.path' in d and ('TMP_BASE' in d or 'const("tmp")' in d) and 'parent' not in d
            ctx.check(ok, 'K12', '%s:tmp-file-in-private-tmp-dir' % b.nid,
                      'the temporary file is created in <store>/tmp (%s)' % d[:80],
                      '%s creates the temporary file in `%s`, not in the store\'s private tmp directory: a kill during the update '
                      'leaves a half-written file inside the tree that cleanup, dump and the next run read as a stored publication '
                      'point' % (b.nid, d[:120]), loc=s_.loc())
    ctx.floor('K12', 'temporary file creations in store.rs', n, 1)


RULES = [rule_tmp_location, rule_replace_by_rename_only, rule_point_file, rule_ta, rule_status]
