"""C01 Only validated payload reaches routers (K1 guard tables, K3, K4)."""
from lib.facts import norm, path_matches, origin_is_call, Site
from lib.rules import (G, require_guards, arg_desc, agg_sites, who_calls, k3_field_writers, arg_path, fmt_path,
                       writers_of_field)
from lib.tables import enumerate_paths, describe

META = dict(
    level='other',
    explanation=(
        'Guard-dominance tables (K1) over engine.rs: every call that hands payload to the processor '
        '(ProcessRun::process_ta, ProcessPubPoint::process_roa/process_aspa/process_gbr/process_router_cert/process_ca, the '
        'CaTask push) and every construction of a ValidPointManifest is reachable only through the passing edge of each '
        'required check (TAL key equality, validate_ta, Manifest::decode/validate, premature test, CRL hash/decode/'
        'signature/revocation, Roa/Aspa/SignedObject::decode and ::process with a CRL-checking closure, validate_router/'
        'validate_ca, check_crl, check_loop, CaCert::chain, manifest hash of each collected object). Issuer provenance: '
        'the issuer argument of every validate_*/process call is `self.cert.cert()` of the publication point. K4 on '
        'ValidPointManifest::check_crl (Ok only if the CRL URI equals the manifest CRL and the serial is not revoked) and '
        'on load_ta/process_tal_task. K3: PubPointProcessor literals only in process_ta/process_ca; '
        'ValidationReport.pub_points pushed only in commit; commit called only from accept_point. Shared with C06 (same rule '
        'functions): the stale policy table for manifest and CRL (fetched and stored) and the premature test, i.e. the '
        '"current manifest / CRL" clause.'),
    decides='on every path to a payload sink all listed checks have passed, with the right issuer',
    undecided='correctness of the checks inside the rpki crate (signatures, resource containment, validity times)',
    trusted_base=['rustc MIR construction + callee resolution', 'rpki crate validate_*/process/verify semantics'],
    rules=['K1 guard tables (11 bodies)', 'issuer-argument provenance', 'K4 check_crl', 'K3 processor constructors / report writers', 'K4 stale/premature tables (shared with C06)'],
)

ISSUER = 'call:CaCert::cert(self.cert)'
OKL = {'Ok', 'pass', 'Some'}


def crl_closure_ok(ctx, body, site, argi, what):
    """The closure passed at argi calls ValidPointManifest::check_crl and returns its result."""
    o = body.origin_of_operand(site.term['args'][argi])
    while o.kind in ('ref', 'cast'):
        o = o.base
    ok = False
    cl = None
    if o.kind == 'agg' and o.rv.get('kind') == 'closure':
        cls = ctx.facts.find(norm(o.rv['def']))
        if cls:
            cl = cls[0]
            ctx.bodies.add(cl.nid)
            paths = enumerate_paths(cl, ctx.facts)
            ok = bool(paths) and all(p.outcome.startswith('call:ValidPointManifest::check_crl') for p in paths)
    ctx.check(ok, 'K1', '%s:%s:crl-closure' % (body.nid, what),
              'the revocation callback passed to %s returns ValidPointManifest::check_crl(cert)' % what,
              'the revocation callback passed to %s does not (only) return the result of check_crl' % what, loc=site.loc())


def issuer_ok(ctx, body, site, argi, what):
    d = arg_desc(site, argi)
    ctx.check(d == ISSUER, 'prov', '%s:%s:issuer' % (body.nid, what),
              '%s validates against the publication point CA certificate (%s)' % (what, d),
              '%s validates against `%s` instead of the CA certificate of this publication point (self.cert.cert())'
              % (what, d), loc=site.loc())


def rule_tal(ctx):
    b = ctx.body('engine::Run::process_tal_task')
    sinks = b.calls('engine::ProcessRun::process_ta')
    ctx.floor('K1', 'process_ta call', len(sinks), 1)
    key_in_task = G('TAL key equality', cmp=('subject_public_key_info', 'key_info'), cmp_want={'Equal'})
    e, sw = key_in_task.edges(b)
    guards = [G('Ok(Cert::validate_ta)', call='Cert::validate_ta', labels=OKL),
              G('Ok(CaCert::root)', call='engine::CaCert::root', labels=OKL)]
    if sw:
        guards.insert(0, key_in_task)
    else:
        # alternative: the comparison lives in load_ta and dominates every non-None return there
        lb = ctx.body('engine::Run::load_ta')
        ke, ksw = G('TAL key equality', cmp=('subject_public_key_info', 'key_info'), cmp_want={'Equal'}).edges(lb)
        good = bool(ksw)
        for p in enumerate_paths(lb, ctx.facts):
            if p.outcome and 'Option::None' not in p.outcome and 'Break' not in p.outcome and p.ret_site is not None:
                if lb.path_avoiding(p.ret_site.bb, avoid_edges=ke) is not None:
                    good = False
                    ctx.bad('K1', 'load_ta:return<=TAL key equality',
                            'load_ta can return a certificate (%s) that was not compared with the TAL key, and '
                            'process_tal_task does not compare it either: a stored or fetched certificate with a different '
                            'key would be used as trust anchor' % p.outcome, loc=p.ret_site.loc())
                    break
        if good:
            ctx.ok('K1', 'load_ta:return<=TAL key equality', 'key comparison dominates every certificate-returning path of load_ta')
        if not ksw:
            ctx.bad('K1', 'process_tal_task:guard-missing:TAL key equality',
                    'no comparison of the certificate key with the TAL key found in process_tal_task or load_ta')
    require_guards(ctx, 'K1', b, sinks, guards, 'trust anchor must match the TAL key and validate as TA')
    for s in b.calls('Cert::validate_ta'):
        d = arg_desc(s, 0)
        ctx.check('load_ta' in d, 'prov', 'process_tal_task:validate_ta:receiver',
                  'validate_ta is applied to the certificate obtained from load_ta', 'validate_ta receiver is `%s`' % d, loc=s.loc())
    for s in sinks:
        d = arg_desc(s, 3)
        ctx.check('CaCert::root' in d or 'root' in d, 'prov', 'process_tal_task:process_ta:cert',
                  'process_ta receives the CaCert built from the validated TA (%s)' % d,
                  'process_ta receives `%s`, not the validated trust anchor' % d, loc=s.loc())
    for s in b.calls('engine::CaCert::root'):
        d = arg_desc(s, 0)
        ctx.check('validate_ta' in d, 'prov', 'process_tal_task:root:arg',
                  'CaCert::root is built from the Ok value of validate_ta', 'CaCert::root is built from `%s`' % d, loc=s.loc())


SIGNED = [
    ('engine::PubPoint::process_roa', 'Roa::decode', 'Roa::process', 'engine::ProcessPubPoint::process_roa'),
    ('engine::PubPoint::process_aspa', 'Aspa::decode', 'Aspa::process', 'engine::ProcessPubPoint::process_aspa'),
    ('engine::PubPoint::process_gbr', 'SignedObject::decode', 'SignedObject::process', 'engine::ProcessPubPoint::process_gbr'),
]


def rule_signed_objects(ctx):
    for bpat, dec, proc, sink in SIGNED:
        b = ctx.body(bpat)
        sinks = b.calls(sink)
        ctx.floor('K1', '%s call' % sink.split('::')[-1], len(sinks), 1)
        require_guards(ctx, 'K1', b, sinks, [
            G('Ok(%s)' % '::'.join(dec.split('::')[-2:]), call=dec, labels=OKL),
            G('Ok(%s)' % '::'.join(proc.split('::')[-2:]), call=proc, labels=OKL),
        ], 'signed object must decode and validate (signature, resources, CRL) before its payload is used')
        for s in b.calls(proc):
            issuer_ok(ctx, b, s, 1, '::'.join(proc.split('::')[-2:]))
            crl_closure_ok(ctx, b, s, 3, '::'.join(proc.split('::')[-2:]))
            d = arg_desc(s, 0)
            ctx.check('decode' in d, 'prov', '%s:process:receiver' % b.nid, 'process() is applied to the decoded object',
                      'process() receiver is `%s`' % d, loc=s.loc())
        for s in sinks:
            d = arg_desc(s, 2) + ' ' + arg_desc(s, 3)
            ctx.check(proc.split('::')[-2] + '::process' in d, 'prov', '%s:sink-args' % b.nid,
                      'payload handed over is the Ok value of %s' % proc, 'payload handed over is `%s`' % d, loc=s.loc())


def rule_certs(ctx):
    b = ctx.body('engine::PubPoint::process_router_cert')
    sinks = b.calls('engine::ProcessPubPoint::process_router_cert')
    ctx.floor('K1', 'process_router_cert sink', len(sinks), 1)
    require_guards(ctx, 'K1', b, sinks, [
        G('Ok(Cert::validate_router)', call='Cert::validate_router', labels=OKL),
        G('Ok(check_crl)', call='engine::ValidPointManifest::check_crl', labels=OKL),
    ], 'router certificate must validate against the CA and not be revoked')
    for s in b.calls('Cert::validate_router'):
        issuer_ok(ctx, b, s, 1, 'Cert::validate_router')
    b = ctx.body('engine::PubPoint::process_ca_cer')
    sinks = b.calls('engine::ProcessPubPoint::process_ca') + [s for s in b.calls('Vec::push')]
    ctx.floor('K1', 'process_ca + CaTask push sinks', len(sinks), 2)
    require_guards(ctx, 'K1', b, sinks, [
        G('Ok(check_loop)', call='engine::CaCert::check_loop', labels=OKL),
        G('Ok(Cert::validate_ca)', call='Cert::validate_ca', labels=OKL),
        G('Ok(check_crl)', call='engine::ValidPointManifest::check_crl', labels=OKL),
        G('Ok(CaCert::chain)', call='engine::CaCert::chain', labels=OKL),
    ], 'CA certificate must pass loop check, validation against the issuer, revocation check and depth limit')
    for s in b.calls('Cert::validate_ca'):
        issuer_ok(ctx, b, s, 1, 'Cert::validate_ca')
    for s in b.calls('engine::CaCert::chain'):
        d0, d2 = arg_desc(s, 0), arg_desc(s, 2)
        ctx.check(d0 == 'self.cert' and 'validate_ca' in d2, 'prov', 'process_ca_cer:chain:args',
                  'CaCert::chain(issuer=self.cert, cert=Ok(validate_ca))', 'CaCert::chain called with issuer `%s`, cert `%s`' % (d0, d2),
                  loc=s.loc())
    for s in b.calls('engine::ValidPointManifest::check_crl'):
        d = arg_desc(s, 1)
        ctx.check('validate_ca' in d, 'prov', 'process_ca_cer:check_crl:arg', 'check_crl is applied to the validated certificate',
                  'check_crl is applied to `%s`' % d, loc=s.loc())
    # process_cer dispatch: CA certs go to process_ca_cer, everything else to process_router_cert
    b = ctx.body('engine::PubPoint::process_cer')
    require_guards(ctx, 'K1', b, b.calls(['engine::PubPoint::process_ca_cer', 'engine::PubPoint::process_router_cert']),
                   [G('Ok(Cert::decode)', call='Cert::decode', labels=OKL)], 'certificate must decode')


def rule_check_crl(ctx):
    b = ctx.body('engine::ValidPointManifest::check_crl')
    paths = enumerate_paths(b, ctx.facts)
    n_ok = 0
    for p in paths:
        if not p.outcome.startswith('Result::Ok'):
            continue
        n_ok += 1
        cm = p.cond_map()
        uri_eq = any(v.startswith('cmp(') and 'crl_uri' in v and labs <= {'Equal'} for v, labs in cm.items())
        has_uri = any('Cert::crl_uri' in v and labs and labs <= {'Some', 'pass', 'Ok'} for v, labs in cm.items())
        not_rev = any('Crl::contains' in v and labs == {'false'} for v, labs in cm.items())
        ctx.check(uri_eq and has_uri and not_rev, 'K4', 'check_crl:Ok=>uri-equal&not-revoked',
                  'check_crl returns Ok only if the certificate names the manifest CRL and its serial is not on it',
                  'check_crl can return Ok with conditions %s' % {k: sorted(v) for k, v in cm.items()},
                  loc=p.ret_site.loc() if p.ret_site else None)
    ctx.floor('K4', 'Ok paths of check_crl', n_ok, 1)
    for s in b.calls('Crl::contains'):
        ctx.check('self.crl' in arg_path(s, 0) and 'serial_number' in arg_desc(s, 1), 'prov', 'check_crl:contains:args',
                  'revocation lookup: self.crl.contains(cert.serial_number())', 'revocation lookup on `%s` / `%s`' % (arg_path(s, 0), arg_desc(s, 1)),
                  loc=s.loc())


def rule_manifests(ctx):
    # collected
    b = ctx.body('engine::PubPoint::validate_collected_manifest')
    lits = agg_sites(b, 'engine::ValidPointManifest')
    ctx.floor('K1', 'ValidPointManifest literal (collected)', len(lits), 1)
    require_guards(ctx, 'K1', b, lits, [
        G('Ok(Manifest::decode)', call='Manifest::decode', labels=OKL),
        G('Ok(Manifest::validate)', call='Manifest::validate', labels=OKL),
        G('not premature', cmp=('this_update', 'Time::now'), cmp_want={'Less', 'Equal'}),
        G('Some(validate_collected_crl)', call='engine::PubPoint::validate_collected_crl', labels=OKL),
    ], 'a fetched manifest must decode, validate against the CA, not be premature, and have a valid CRL')
    for s in b.calls('Manifest::validate'):
        issuer_ok(ctx, b, s, 1, 'Manifest::validate')
    b = ctx.body('engine::PubPoint::validate_collected_crl')
    rets = agg_sites(b, 'core::option::Option', 'Some') + agg_sites(b, 'std::option::Option', 'Some')
    # the final Some((crl_uri, crl, crl_bytes)) return
    final = [s for s in rets if b.site_dominates(s, s) and any(
        b.blocks[r.bb]['term']['t'] == 'return' or True for r in [s])]
    finals = []
    for s in rets:
        o = b.origin_of_operand(s.stmt['rv']['ops'][0])
        if o.kind == 'agg' and o.rv.get('kind') == 'tuple' and len(o.ops) == 3:
            finals.append(s)
    ctx.floor('K1', 'success return of validate_collected_crl', len(finals), 1)
    require_guards(ctx, 'K1', b, finals, [
        G('Ok(Crl::decode)', call='Crl::decode', labels=OKL),
        G('Ok(Crl::verify_signature)', call='Crl::verify_signature', labels=OKL),
        G('EE cert not revoked', call='Crl::contains', labels={'false'}),
        G('CRL bytes present', opred=lambda o: o.kind == 'multi' and all(a.kind == 'agg' and 'Option' in a.what for a in o.alts),
          labels={'Some'}),
    ], 'the manifest CRL must match its manifest hash, decode, be signed by the CA and not revoke the manifest EE certificate')
    # the CRL bytes kept are the ones that matched the manifest hash
    kept = []
    for s in agg_sites(b, 'core::option::Option', 'Some') + agg_sites(b, 'std::option::Option', 'Some'):
        oo = b.origin_of_operand(s.stmt['rv']['ops'][0])
        while oo.kind in ('ref', 'cast'):
            oo = oo.base
        if oo.kind != 'agg' and 'load_object' in describe(oo):
            kept.append(s)
    ctx.floor('K1', 'CRL bytes retained from load_object', len(kept), 1)
    require_guards(ctx, 'K1', b, kept, [
        G('Some(load_object)', call='collector::base::Repository::load_object', labels=OKL),
        G('Ok(ManifestHash::verify)', call='ManifestHash::verify', labels=OKL),
    ], 'the manifest CRL must be present and match the hash listed on the manifest')
    for s in b.calls('Crl::decode'):
        d = arg_desc(s, 0)
        ctx.check('phi(' in d or 'load_object' in d or 'crl_bytes' in d, 'prov', 'validate_collected_crl:decode:arg',
                  'the decoded CRL is the retained, hash-verified byte string', 'Crl::decode is applied to `%s`' % d, loc=s.loc())
    for s in b.calls('Crl::verify_signature'):
        d = arg_desc(s, 1)
        ctx.check(d.endswith('::subject_public_key_info(%s)' % ISSUER), 'prov', 'validate_collected_crl:verify_signature:key',
                  'CRL signature is verified with the CA key', 'CRL signature is verified with `%s`' % d, loc=s.loc())
    for s in b.calls('Crl::contains'):
        d = arg_desc(s, 1)
        ctx.check('ee_cert' in d and 'serial_number' in d, 'prov', 'validate_collected_crl:contains:arg',
                  'revocation of the manifest EE certificate is checked', 'contains() is asked about `%s`' % d, loc=s.loc())
    # stored
    b = ctx.body('engine::PubPoint::validate_stored_manifest')
    lits = agg_sites(b, 'engine::ValidPointManifest')
    ctx.floor('K1', 'ValidPointManifest literal (stored)', len(lits), 1)
    require_guards(ctx, 'K1', b, lits, [
        G('Ok(Manifest::decode)', call='Manifest::decode', labels=OKL),
        G('Ok(Manifest::validate)', call='Manifest::validate', labels=OKL),
        G('Ok(Crl::decode)', call='Crl::decode', labels=OKL),
        G('Ok(Crl::verify_signature)', call='Crl::verify_signature', labels=OKL),
        G('EE cert not revoked', call='Crl::contains', labels={'false'}),
    ], 'a stored manifest is re-validated (decode, CA signature, CRL signature, revocation) on every run')
    for s in b.calls('Manifest::validate'):
        issuer_ok(ctx, b, s, 1, 'Manifest::validate')
    for s in b.calls('Crl::verify_signature'):
        d = arg_desc(s, 1)
        ctx.check(d.endswith('::subject_public_key_info(%s)' % ISSUER), 'prov', 'validate_stored_manifest:verify_signature:key',
                  'CRL signature is verified with the CA key', 'CRL signature is verified with `%s`' % d, loc=s.loc())
    # ValidPointManifest is constructed nowhere else
    n = 0
    for raw, line in ctx.facts._lines.items():
        if 'ValidPointManifest' not in line:
            continue
        bb = ctx.facts.body_raw(raw)
        if bb.rec.get('derive'):
            continue
        for s in agg_sites(bb, 'engine::ValidPointManifest'):
            n += 1
            ctx.check(bb.nid in ('engine::PubPoint::validate_collected_manifest', 'engine::PubPoint::validate_stored_manifest'),
                      'K3', 'ValidPointManifest-ctor<-%s' % bb.nid, 'ValidPointManifest built in %s' % bb.nid,
                      'ValidPointManifest is constructed in %s, bypassing manifest validation' % bb.nid, loc=s.loc())
    ctx.floor('K3', 'ValidPointManifest constructors', n, 2)


def rule_objects(ctx):
    b = ctx.body('engine::PubPoint::process_collected')
    cls = [c for c in ctx.closures(b) if c.calls('engine::PubPoint::process_object')]
    ctx.floor('K1', 'object closure of process_collected', len(cls), 1)
    for c in cls:
        sinks = c.calls('engine::PubPoint::process_object')
        require_guards(ctx, 'K1', c, sinks, [
            G('Some(load_object)', call='collector::base::Repository::load_object', labels=OKL),
            G('Ok(ManifestHash::verify)', call='ManifestHash::verify', labels=OKL),
        ], 'a fetched object is processed only if present and matching its manifest hash')
        for s in sinks:
            d = arg_desc(s, 2)
            ctx.check('load_object' in d, 'prov', 'process_collected:closure:content', 'the processed bytes are the verified bytes',
                      'process_object receives `%s`, not the hash-verified content' % d, loc=s.loc())
        for s in c.calls('ManifestHash::verify'):
            d = arg_desc(s, 1)
            ctx.check('load_object' in d, 'prov', 'process_collected:closure:verify-arg', 'hash is verified over the loaded content',
                      'hash verified over `%s`' % d, loc=s.loc())
        for s in c.calls('ManifestHash::new'):
            d = arg_desc(s, 0)
            ctx.check('FileAndHash::hash' in d or 'hash' in d, 'prov', 'process_collected:closure:hash-src',
                      'expected hash comes from the manifest entry', 'expected hash is `%s`' % d, loc=s.loc())
    # manifest validated before objects
    require_guards(ctx, 'K1', b, b.calls('store::StoredPoint::update'),
                   [G('Some(validate_collected_manifest)', call='engine::PubPoint::validate_collected_manifest', labels=OKL)],
                   'objects are only looked at under a validated manifest')
    ps = ctx.body('engine::PubPoint::process_stored')
    require_guards(ctx, 'K1', ps, ps.calls('engine::PubPoint::process_object') + ps.calls('engine::PubPoint::accept_point'),
                   [G('Ok(validate_stored_manifest)', call='engine::PubPoint::validate_stored_manifest', labels=OKL)],
                   'stored objects are only processed under a re-validated stored manifest')


def rule_who(ctx):
    n = 0
    for raw, line in ctx.facts._lines.items():
        if 'PubPointProcessor' not in line:
            continue
        bb = ctx.facts.body_raw(raw)
        if bb.rec.get('derive'):
            continue
        for s in agg_sites(bb, 'payload::validation::PubPointProcessor'):
            n += 1
            ok = bb.nid.endswith('ProcessRun>::process_ta') or bb.nid.endswith('ProcessPubPoint>::process_ca')
            ctx.check(ok, 'K3', 'PubPointProcessor-ctor<-%s' % bb.nid, 'PubPointProcessor built in %s' % bb.nid,
                      'a PubPointProcessor is constructed in %s (only process_ta/process_ca may create one)' % bb.nid, loc=s.loc())
    ctx.floor('K3', 'PubPointProcessor constructors', n, 2)
    who_calls(ctx, 'K3', 'engine::ProcessPubPoint::commit', ['engine::PubPoint::accept_point'])
    who_calls(ctx, 'K3', 'engine::PubPoint::accept_point', ['engine::PubPoint::process_collected', 'engine::PubPoint::process_stored'], floor=2)
    # pub_points pushed only in commit
    n = 0
    for s in ctx.facts.callers('re:SegQueue::push$'):
        if 'pub_points' in arg_path(s, 0):
            n += 1
            ctx.check(s.body.nid.endswith('ProcessPubPoint>::commit'), 'K3', 'pub_points.push<-%s' % s.body.nid,
                      'ValidationReport.pub_points is pushed to in commit', 'ValidationReport.pub_points is pushed to in %s' % s.body.nid,
                      loc=s.loc())
    ctx.floor('K3', 'pushes to ValidationReport.pub_points', n, 1)
    # the sinks are only called from the engine's per-object processors
    for sink, allowed in [
        ('engine::ProcessPubPoint::process_roa', ['engine::PubPoint::process_roa']),
        ('engine::ProcessPubPoint::process_aspa', ['engine::PubPoint::process_aspa']),
        ('engine::ProcessPubPoint::process_router_cert', ['engine::PubPoint::process_router_cert']),
        ('engine::ProcessPubPoint::process_ca', ['engine::PubPoint::process_ca_cer']),
        ('engine::ProcessRun::process_ta', ['engine::Run::process_tal_task']),
    ]:
        who_calls(ctx, 'K3', sink, allowed)


from props.C06 import rule_stale, rule_premature  # noqa: E402  ("current" manifest and CRL: shared with C06)

RULES = [rule_tal, rule_signed_objects, rule_certs, rule_check_crl, rule_manifests, rule_objects, rule_who, rule_stale, rule_premature]
