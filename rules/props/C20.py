"""C20 Route origin validation follows RFC 6811 (K4 classification tables, K3)."""
import re
from lib.rules import G, arg_desc, who_calls, arg_path, agg_sites, user_local_of
from lib.tables import enumerate_paths, describe

META = dict(
    level='other',
    explanation=(
        'K4 decision table over ONE iteration of the loop in validity::RouteValidity::new (paths enumerated from the loop '
        'body entry to the back edge): not covers -> nothing pushed; covers & route-len > max-len -> bad_len; covers & '
        'len ok & asn differs -> bad_asn; else matched; operands are checked by provenance (VRP prefix covers the ROUTE '
        'prefix; route length vs. the VRP\'s resolved_max_len; VRP asn vs. route asn). The iterated collection must be the '
        'full origin set of the snapshot (PayloadSnapshot::origins) - a pre-filtered or range-limited iterator would hide '
        'covering VRPs. K4 on state()/reason(): valid iff matched non-empty; invalid iff matched empty and some covering '
        'VRP; not-found otherwise; reason "as" before "length". K3: RouteValidity is constructed only in new(), and the '
        'CLI / HTTP entry points call new().'),
    decides='the classification table per VRP and the state/reason derivation; full-set iteration',
    undecided='Prefix::covers and resolved_max_len arithmetic (rpki crate)',
    trusted_base=['rustc MIR construction + callee resolution', 'rpki Prefix::covers / MaxLenPrefix::resolved_max_len'],
    rules=['K4 per-VRP classification', 'provenance of the iterated set', 'K4 state/reason', 'K3 constructor'],
)


def rule_classify(ctx):
    b = ctx.body('validity::RouteValidity::new')
    head = None
    for sbb in b.switches():
        o, edges = b.switch_edges(sbb)
        oc = o
        while oc.kind in ('ref', 'cast', 'place'):
            oc = oc.base
        if oc.kind == 'call' and oc.callee.endswith('::next'):
            head = (sbb, oc, edges)
    if head is None:
        ctx.bad('K4', 'RouteValidity::new:loop', 'loop over the VRP set not found (shape not recognised)')
        return
    sbb, nxt, edges = head
    src = describe(nxt.args[0]) if nxt.args else '?'
    ok_src = bool(re.match(r'^call:IntoIterator::into_iter\(call:PayloadSnapshot::origins\(snapshot\)\)$', src)) or \
        bool(re.match(r'^call:PayloadSnapshot::origins\(snapshot\)$', src))
    # `snapshot.origins().filter(|item| item.prefix.covers(prefix))`: the covering test as an adaptor over the complete set
    pre_filtered = False
    mfl = re.match(r'^(?:call:IntoIterator::into_iter\()?call:Iterator::filter\(call:PayloadSnapshot::origins\(snapshot\),.*\{closure#(\d+)\}.*\)\)?$', src)
    if not ok_src and mfl:
        outs = [cp.outcome or '' for c in ctx.closures(b) if c.nid.endswith('{closure#%s}' % mfl.group(1)) for cp in enumerate_paths(c, ctx.facts)]
        if outs and all(re.match(r'^call:Prefix::covers\(call:MaxLenPrefix::prefix\(.*\),(upvar:)?prefix\)$', o) for o in outs):
            ok_src = pre_filtered = True
    ctx.check(ok_src, 'prov', 'RouteValidity::new:iterates-all-origins',
              'the loop iterates over snapshot.origins(), the complete VRP set',
              'the loop iterates over `%s` instead of the complete VRP set snapshot.origins(): covering VRPs outside that '
              'range/filter are never classified' % src, loc=nxt.site.loc())
    starts = [tb for tb, labs in edges.items() if labs == {'Some'}]
    paths = []
    for st in starts:
        paths += enumerate_paths(b, ctx.facts, start=st)
    ctx.floor('K4', 'iteration paths', len(paths), 3 if pre_filtered else 4)
    seen = set()
    for p in paths:
        if p.kind == 'diverge':
            continue        # a path ending in a panic (failed debug_assert!/unreachable!) classifies nothing
        cm = p.cond_map()
        cov = ln = asn = None
        for v, labs in cm.items():
            if v.startswith('call:Prefix::covers('):
                cov = list(labs)[0] if len(labs) == 1 else None
                ctx.check(bool(re.match(r'^call:Prefix::covers\(call:MaxLenPrefix::prefix\(.*next.*\),prefix\)$', v)), 'prov',
                          'RouteValidity::new:covers-operands', 'VRP prefix covers route prefix', 'covers() is evaluated as %s' % v)
            elif v.startswith('cmp(') and 'resolved_max_len' in v:
                # canonical order: call:MaxLenPrefix::resolved_max_len... vs call:Prefix::len(prefix)
                a, bb_ = v[4:-1].split(',call:', 1) if ',call:' in v else (v, '')
                ln = labs
                lnv = v
            elif v.startswith('cmp(') and '.asn' in v:
                asn = labs
                ctx.check(v.endswith(',asn)') or ',asn)' in v or '(asn,' in v, 'prov', 'RouteValidity::new:asn-operands',
                          'VRP asn compared with route asn', 'asn comparison is %s' % v)
        pushes = [user_local_of(b, s.term['args'][0]) for s in p.called('Vec::push')]
        # `let bucket = if .. { &mut bad_len } else ..; bucket.push(item)`: the vector is the one the reference points to on this path
        def target_on_path(s):
            pl = s.term['args'][0].get('m') or s.term['args'][0].get('c')
            for _ in range(8):
                if not pl:
                    return None
                l = pl[0]
                if l in b._names and b._names[l] in ('matched', 'bad_asn', 'bad_len'):
                    return b._names[l]
                d = (p.env or {}).get(('def', l))
                if d is None:
                    return b._names.get(l)
                rv = d[1].get('rv') if isinstance(d[1], dict) else None
                if not rv:
                    return None
                if rv['r'] == 'ref':
                    pl = rv.get('p')
                elif rv['r'] == 'use':
                    pl = rv['o'].get('m') or rv['o'].get('c')
                else:
                    return None
            return None
        pushes = [x if x in ('matched', 'bad_asn', 'bad_len') else target_on_path(s) for x, s in zip(pushes, p.called('Vec::push'))]
        if pre_filtered and cov is None:
            cov = 'true'
        if cov == 'false':
            exp = []
            row = 'not-covering'
        elif cov == 'true':
            # len > max ?  var is cmp(X,Y) in canonical (sorted) operand order
            if ln is None:
                ctx.bad('K4', 'RouteValidity::new:length-not-tested', 'a covering VRP is classified without the max-length test')
                continue
            first_is_maxlen = lnv[4:].startswith('call:MaxLenPrefix::resolved_max_len')
            too_long = (ln == {'Less'}) if first_is_maxlen else (ln == {'Greater'})
            fits = (ln == {'Equal', 'Greater'}) if first_is_maxlen else (ln == {'Equal', 'Less'})
            if too_long:
                exp = ['bad_len']
                row = 'covering,too-long'
            elif fits:
                if asn is None:
                    ctx.bad('K4', 'RouteValidity::new:asn-not-tested', 'a covering VRP of fitting length is classified without the AS test')
                    continue
                if asn == {'Equal'}:
                    exp = ['matched']
                    row = 'covering,fits,same-as'
                else:
                    exp = ['bad_asn']
                    row = 'covering,fits,other-as'
            else:
                ctx.bad('K4', 'RouteValidity::new:length-relation', 'length relation %s not one of (> max, <= max)' % sorted(ln))
                continue
        else:
            ctx.bad('K4', 'RouteValidity::new:covers-not-tested', 'an iteration does not test covers()')
            continue
        seen.add(row)
        ctx.check(pushes == exp, 'K4', 'RouteValidity::new:%s' % row, 'pushed to %s' % pushes,
                  'a VRP that is %s is pushed to %s, expected %s' % (row, pushes, exp))
    if pre_filtered:
        seen.add('not-covering')
    ctx.check(seen == {'not-covering', 'covering,too-long', 'covering,fits,same-as', 'covering,fits,other-as'}, 'K4',
              'RouteValidity::new:all-rows', 'all four classification rows present', 'rows present: %s' % sorted(seen))
    # the struct is built from the three vectors
    for l in agg_sites(b, 'validity::RouteValidity'):
        rv = l.stmt['rv']
        for f in ('matched', 'bad_asn', 'bad_len'):
            ul = user_local_of(b, rv['ops'][rv['names'].index(f)])
            ctx.check(ul == f, 'prov', 'RouteValidity::new:field:%s' % f, 'field %s = vector %s' % (f, ul), 'field %s is filled from %s' % (f, ul))


def rule_state(ctx):
    # `match (a.is_empty(), b.is_empty(), c.is_empty()) {..}`: a test of `(x, y, z).0` is a test of `x`
    from lib import tables as _t
    old = _t.OPTS['tuple_proj']
    _t.OPTS['tuple_proj'] = True
    try:
        _state(ctx)
    finally:
        _t.OPTS['tuple_proj'] = old


def _state(ctx):
    b = ctx.body('validity::RouteValidity::state')
    for p in enumerate_paths(b, ctx.facts):
        cm = {}
        for v, labs in p.cond_map().items():
            m = re.match(r'^call:Vec::is_empty\(self\.(\w+)\)$', v)
            if m and len(labs) == 1:
                cm[m.group(1)] = list(labs)[0]
        if cm.get('matched') == 'false':
            exp = 'RouteState::Valid()'
        elif cm.get('bad_asn') == 'false' or cm.get('bad_len') == 'false':
            exp = 'RouteState::Invalid()'
        elif cm.get('bad_asn') == 'true' and cm.get('bad_len') == 'true':
            exp = 'RouteState::NotFound()'
        else:
            exp = '?'
        ctx.check(p.outcome == exp, 'K4', 'state:%s' % sorted(cm.items()), '-> %s' % p.outcome,
                  'state() returns %s for emptiness %s, expected %s' % (p.outcome, cm, exp))
    r = ctx.body('validity::RouteValidity::reason')
    for p in enumerate_paths(r, ctx.facts):
        cm = {}
        for v, labs in p.cond_map().items():
            m = re.match(r'^call:Vec::is_empty\(self\.(\w+)\)$', v)
            if m and len(labs) == 1:
                cm[m.group(1)] = list(labs)[0]
        if cm.get('matched') == 'false':
            exp = 'None'
        elif cm.get('bad_asn') == 'false':
            exp = '"as"'
        elif cm.get('bad_len') == 'false':
            exp = '"length"'
        else:
            exp = 'None'
        ctx.check(exp in p.outcome, 'K4', 'reason:%s' % sorted(cm.items()), '-> %s' % p.outcome,
                  'reason() returns %s for emptiness %s, expected %s' % (p.outcome, cm, exp))


def rule_ctor(ctx):
    n = 0
    for raw, line in ctx.facts._lines.items():
        if 'RouteValidity' not in line:
            continue
        bb = ctx.facts.body_raw(raw)
        if bb.rec.get('derive'):
            continue
        for s in agg_sites(bb, 'validity::RouteValidity'):
            n += 1
            ctx.check(bb.nid == 'validity::RouteValidity::new', 'K3', 'RouteValidity-ctor<-%s' % bb.nid, 'built in new()',
                      'RouteValidity is constructed in %s, bypassing the classification' % bb.nid, loc=s.loc())
    ctx.floor('K3', 'RouteValidity constructors', n, 1)
    cs = ctx.facts.callers('validity::RouteValidity::new')
    roots = set(s.body.nid.split('::{')[0] for s in cs)
    ctx.floor('K3', 'callers of RouteValidity::new', len(cs), 2)
    ctx.extra['entry_points'] = sorted(roots)


RULES = [rule_classify, rule_state, rule_ctor]
