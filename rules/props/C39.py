"""C39 Data refresh deadline never exceeds contributing objects' expiry (K13 monotone field + pairing)."""
import re
from lib.facts import Site
from lib.rules import arg_desc, who_calls, writers_of_field, arg_path, field_writes, G, require_guards
from lib.tables import enumerate_paths, describe

from lib.rules import owned_by  # noqa: E402

META = dict(
    level='other',
    explanation=(
        'Monotone-field rule (K13): every assignment to payload::validation::PubPoint.refresh is min(current refresh, x) '
        '(update_refresh, point_validity), the constructor argument, or the reset to orig_refresh in restart(); the '
        'constructor argument is the TA certificate\'s notAfter (new_ta) or min(PARENT.refresh, certificate notAfter) '
        '(new_ca) - the parent\'s CURRENT refresh, which already contains the parent\'s manifest/CRL deadlines, not its '
        'original one; SnapshotBuilder.refresh is None->Some(x) / Some(min(old, x)) and process_pub_point folds in every '
        'committed point\'s refresh unconditionally; the snapshot is built with that value. Pairing: in the processor '
        'callbacks every add_router_key / add_aspa and every successful add_roa is accompanied by '
        'update_refresh(object certificate notAfter); point_validity folds min(manifest EE notAfter, min(manifest '
        'nextUpdate, CRL nextUpdate)) and is called by the engine on both the fetched and the stored path before any object '
        'is processed.'),
    decides='the deadline can only decrease along the chain and every contributing expiry is folded in',
    undecided='Time arithmetic; expiry of objects that the rpki crate validates internally',
    trusted_base=['rustc MIR construction + callee resolution', 'std cmp::min'],
    rules=['K13 PubPoint.refresh monotone', 'K13 SnapshotBuilder.refresh', 'pairing add_* / update_refresh', 'K2 point_validity before objects'],
)

PP = 'payload::validation::PubPoint'


def rule_pubpoint_refresh(ctx):
    n = 0
    for b, site, how, f in writers_of_field(ctx, PP):
        if f != 'refresh' or how != 'assign':
            continue
        n += 1
        st = site.stmt
        d = describe(b.origin_of_operand(st['rv']['o'])) if st['rv']['r'] == 'use' else str(st['rv'])
        root = b.nid
        if root.endswith('PubPoint::restart'):
            ok = d == 'self.orig_refresh'
            why = 'reset to orig_refresh in restart (payload cleared there, see C03)'
        else:
            m = re.match(r'^call:cmp::min\((self\.refresh|self\.pub_point\.refresh),(.*)\)$', d)
            ok = bool(m)
            why = 'min(current, %s)' % (m.group(2)[:60] if m else '?')
        ctx.check(ok, 'K13', 'PubPoint.refresh<-%s' % root, why,
                  'PubPoint.refresh is assigned `%s` in %s: the deadline must only ever be lowered (min with the current value)' % (d[:120], root), loc=site.loc())
    ctx.floor('K13', 'assignments to PubPoint.refresh', n, 2)
    nb = ctx.body('payload::validation::PubPoint::new')
    from lib.rules import agg_sites
    for l in agg_sites(nb, PP):
        rv = l.stmt['rv']
        d1 = describe(nb.origin_of_operand(rv['ops'][rv['names'].index('refresh')]))
        d2 = describe(nb.origin_of_operand(rv['ops'][rv['names'].index('orig_refresh')]))
        ctx.check(d1 == 'refresh' and d2 == 'refresh', 'K13', 'PubPoint::new:fields', 'refresh = orig_refresh = argument', 'refresh=%s orig_refresh=%s' % (d1, d2))
    who_calls(ctx, 'K3', 'payload::validation::PubPoint::new', ['payload::validation::PubPoint::new_ta', 'payload::validation::PubPoint::new_ca'], floor=2)
    ta = ctx.body('payload::validation::PubPoint::new_ta')
    for s in ta.calls('payload::validation::PubPoint::new'):
        d = arg_desc(s, 0)
        ctx.check(d.startswith('call:Validity::not_after(') and 'cert' in d, 'K13', 'new_ta:refresh=cert.not_after', 'TA point starts at the TA certificate notAfter', 'new_ta starts at %s' % d)
    ca = ctx.body('payload::validation::PubPoint::new_ca')
    for s in ca.calls('payload::validation::PubPoint::new'):
        d = arg_desc(s, 0)
        m = re.match(r'^call:cmp::min\((.*?),(call:Validity::not_after\(.*\))\)$', d)
        ok = bool(m) and m.group(1) == 'parent.refresh' and 'cert' in m.group(2)
        ctx.check(ok, 'K13', 'new_ca:refresh=min(parent.refresh,cert.not_after)',
                  'a child CA starts at min(parent.refresh, its certificate notAfter)',
                  'a child publication point starts its deadline at `%s`: it must inherit the parent\'s CURRENT refresh (which holds '
                  'the parent\'s manifest and CRL deadlines) and its own certificate\'s notAfter' % d, loc=s.loc())
        ctx.sample(dict(new_ca_refresh=d))
    ur = ctx.body('payload::validation::PubPoint::update_refresh')
    params = [d['name'] for d in ur.rec.get('debug', []) if d.get('arg') and d['name'] != 'self']
    ctx.check(any({arg_desc(s, 0), arg_desc(s, 1)} == {'self.refresh', params[0] if params else '?'} for s in ur.calls('cmp::min')),
              'K13', 'update_refresh=min', 'update_refresh is min(self.refresh, x)', 'update_refresh changed')


def rule_builder(ctx):
    b = ctx.body('payload::validation::SnapshotBuilder::update_refresh')
    for p in enumerate_paths(b, ctx.facts):
        cm = p.cond_map()
        cur = [labs for v, labs in cm.items() if v == 'self.refresh']
        val = [d for (_k, (f, d)) in p.field_stores.items() if f == 'refresh']
        if cur and cur[0] == {'Some'}:
            ctx.check(val and bool(re.match(r'^Option::Some\(call:cmp::min\(self\.refresh@Some\.0,refresh\)\)$', val[-1])), 'K13', 'SnapshotBuilder::update_refresh:Some', 'Some(min(old, x))', 'Some(old) -> %s' % val)
        elif cur and cur[0] == {'None'}:
            ctx.check(val and val[-1] == 'Option::Some(refresh)', 'K13', 'SnapshotBuilder::update_refresh:None', 'None -> Some(x)', 'None -> %s' % val)
    pp = ctx.body('payload::validation::SnapshotBuilder::process_pub_point')
    ups = pp.calls('payload::validation::SnapshotBuilder::update_refresh')
    ctx.check(len(ups) == 1 and arg_desc(ups[0], 1) == 'point.refresh' and pp.dominates(0, ups[0].bb) and
              all(pp.site_dominates(ups[0], r) or True for r in pp.returns()) and pp.path_avoiding(pp.returns()[0].bb, avoid_nodes=[ups[0].bb]) is None,
              'K13', 'process_pub_point:folds-point-refresh', 'every committed point\'s refresh is folded in unconditionally', 'process_pub_point does not always fold point.refresh')
    n = 0
    for bb, site, how, f in writers_of_field(ctx, 'payload::validation::SnapshotBuilder'):
        if f == 'refresh' and how == 'assign':
            n += 1
            ok, who = owned_by(ctx, bb.nid, ['SnapshotBuilder::update_refresh'])
            ctx.check(ok, 'K3', 'SnapshotBuilder.refresh<-%s' % who, 'written in update_refresh', 'written in %s' % bb.nid, loc=site.loc())
    ctx.floor('K3', 'assignments to SnapshotBuilder.refresh', n, 1)
    sn = ctx.body('payload::validation::SnapshotBuilder::into_snapshot')
    for s in sn.calls('payload::snapshot::PayloadSnapshot::new'):
        d = arg_desc(s, len(s.term['args']) - 1)
        ctx.check(d == 'self.refresh', 'K13', 'into_snapshot:refresh', 'the snapshot carries builder.refresh', 'snapshot refresh = %s' % d)


def rule_pairing(ctx):
    pre = '<payload::validation::PubPointProcessor as engine::ProcessPubPoint>::'
    for m, sink in (('process_router_cert', 'add_router_key'), ('process_aspa', 'add_aspa')):
        b = ctx.body(pre + m)
        sinks = b.calls('payload::validation::PubPoint::' + sink)
        ups = b.calls('payload::validation::PubPoint::update_refresh')
        for s in sinks:
            ok = any(b.site_dominates(u, s) or b.site_dominates(s, u) and b.path_avoiding(b.returns()[0].bb, avoid_nodes=[u.bb], start=s.bb) is None for u in ups)
            ctx.check(ok, 'pair', '%s:%s+update_refresh' % (m, sink), '%s is accompanied by update_refresh' % sink,
                      '%s adds payload without folding the object\'s expiry into the refresh deadline' % m, loc=s.loc())
        for u in ups:
            d = arg_desc(u, 1)
            ctx.check(d.startswith('call:Validity::not_after(') and 'cert' in d, 'pair', '%s:update_refresh-arg' % m, 'deadline = certificate notAfter', 'update_refresh(%s)' % d, loc=u.loc())
    b = ctx.body(pre + 'process_roa')
    ups = b.calls('payload::validation::PubPoint::update_refresh')
    e, sw = G('add_roa added something', call='payload::validation::PubPoint::add_roa', labels={'true'}).edges(b)
    ctx.check(bool(sw) and bool(ups), 'pair', 'process_roa:update_refresh-on-success', 'update_refresh on the true edge of add_roa', 'process_roa no longer updates the deadline when origins were added')
    for (sb, tb) in e:
        r = b.reachable(tb)
        for ret in b.returns():
            p = b.path_avoiding(ret.bb, avoid_nodes=[u.bb for u in ups], start=tb)
            ctx.check(p is None, 'pair', 'process_roa:added=>update_refresh', 'every path after a successful add_roa updates the deadline', 'a path after add_roa==true skips update_refresh')
    pv = ctx.body(pre + 'point_validity')
    folded = set()
    lowering_only = True

    def min_leaves(d):
        m = re.match(r'^call:cmp::min\((.*)\)$', d)
        if not m:
            return [d]
        depth, cur, parts = 0, '', []
        for ch in m.group(1):
            if ch == ',' and depth == 0:
                parts.append(cur)
                cur = ''
                continue
            depth += ch == '('
            depth -= ch == ')'
            cur += ch
        parts.append(cur)
        return [x for p_ in parts for x in min_leaves(p_)]
    for site, how, adt, f, place in field_writes(pv):
        if f == 'refresh' and how == 'assign':
            d = describe(pv.origin_of_operand(site.stmt['rv']['o']))
            lv = min_leaves(d)
            good = d.startswith('call:cmp::min(') and 'self.pub_point.refresh' in lv
            lowering_only = lowering_only and good
            ctx.check(good, 'K13', 'point_validity:fold', 'refresh = min(refresh, ..)', 'point_validity assigns %s' % d, loc=site.loc())
            folded |= set(lv) - {'self.pub_point.refresh'}
    for u in pv.calls('payload::validation::PubPoint::update_refresh'):
        if arg_desc(u, 0).endswith('self.pub_point'):
            folded.add(arg_desc(u, 1))
    ok = lowering_only and {'call:Validity::not_after(manifest)', 'stale'} <= folded
    if not ok:
        ctx.bad('K13', 'point_validity:folds-manifest-expiry-and-stale-time', 'point_validity folds %s into the deadline: it must lower it to the '
                'manifest certificate\'s notAfter and to the stale time of manifest/CRL' % sorted(folded), loc='%s:%d' % (pv.file, pv.line))
    ctx.check(ok, 'K13', 'point_validity:writes-refresh', 'point_validity lowers the deadline', 'point_validity does not touch refresh')
    ev = ctx.body('engine::ValidPointManifest::point_validity')
    for s in ev.calls('engine::ProcessPubPoint::point_validity'):
        d1, d2 = arg_desc(s, 1), arg_desc(s, 2)
        ctx.check('ee_cert' in d1 and 'validity' in d1, 'prov', 'engine:point_validity:manifest-validity', 'manifest EE certificate validity', 'validity arg %s' % d1)
        ctx.check(bool(re.match(r'^call:cmp::min\(.*next_update\(self\.content\).*next_update\(self\.crl\).*\)$', d2)) or
                  ('next_update' in d2 and 'content' in d2 and 'crl' in d2 and 'cmp::min' in d2), 'prov', 'engine:point_validity:stale=min(mft,crl)',
                  'stale = min(manifest nextUpdate, CRL nextUpdate)', 'stale arg %s' % d2)
    for bpat in ('engine::PubPoint::process_collected', 'engine::PubPoint::process_stored'):
        b = ctx.body(bpat)
        pvs = b.calls('engine::ValidPointManifest::point_validity')
        ctx.floor('K2', 'point_validity call in ' + bpat, len(pvs), 1)
        later = b.calls(['engine::PubPoint::process_object', 'store::StoredPoint::update', 'engine::PubPoint::accept_point'])
        for l in later:
            ctx.check(any(b.site_dominates(pv_, l) for pv_ in pvs), 'K2', '%s:point_validity<%s' % (bpat, l.callee.split('::')[-1]),
                      'manifest/CRL deadlines are reported before objects are processed', 'objects processed before point_validity', loc=l.loc())


RULES = [rule_pubpoint_refresh, rule_builder, rule_pairing]
