"""C11 Deltas describe exactly the change between two data sets (K4 merge-join tables, K3)."""
import re
from lib.mergejoin import rows
from lib.rules import arg_desc, who_calls, agg_sites, arg_path, field_writes
from lib.tables import enumerate_paths, describe

META = dict(
    level='other',
    explanation=(
        'K4 tables over one iteration of the merge-join loops (paths enumerated from the loop head with path-sensitive '
        'propagation of the cursor variables): StandardDelta::construct - old<new: (old, Withdraw), advance old only; equal: '
        'nothing, advance both; old>new: (new, Announce), advance new only; old exhausted: rest of new announced; new '
        'exhausted: rest of old withdrawn; comparison operands in (old,new) order. AspaDelta::construct - same by customer '
        'key, plus equal key & different providers -> (new, Update(old providers)), equal & same providers -> nothing; '
        'AspaAction::withdraw(a) = (a, Withdraw(a.providers)). K4/K3 on the counters: items are pushed only in push(), which '
        'increments exactly the counter of the action. PayloadDelta::construct returns None iff is_empty(), is_empty is '
        'the conjunction over all three parts, the target serial is serial.add(1), and each part is built from (old, new) in '
        'that order. These are necessary conditions of "apply(old, delta) = new"; the law itself also needs sorted, '
        'duplicate-free snapshots (runtime facts).'),
    decides='the per-row behaviour of both merge-join constructions, the emptiness rule, the counters and the serial',
    undecided='sortedness/uniqueness of snapshot iterators; the algebraic law over all inputs',
    trusted_base=['rustc MIR construction + callee resolution'],
    rules=['K4 StandardDelta::construct rows', 'K4 AspaDelta::construct rows', 'K4 push counters', 'K4 PayloadDelta::construct'],
)


def norm_push(desc):
    m = re.search(r'(?:Aspa)?Action::(Announce|Withdraw|Update)', desc)
    act = m.group(1) if m else None
    if desc.startswith('call:AspaAction::withdraw('):
        act = 'Withdraw(own providers)'
        item = 'old' if 'opt_old' in desc else ('new' if 'opt_new' in desc else '?')
        return (item, act)
    first = desc[len('tuple('):].split(',')[0] if desc.startswith('tuple(') else desc
    item = 'old' if 'opt_old' in first else ('new' if 'opt_new' in first else '?')
    if act == 'Update':
        carried = 'old' if re.search(r'Update\([^)]*opt_old[^)]*providers', desc) else ('new' if 'opt_new' in desc.split('Update(')[1] else '?')
        act = 'Update(%s providers)' % carried
    return (item, act)


def check_rows(ctx, name, rws, spec, cmp_prefix):
    seen = set()
    for r in rws:
        c = r['conds']
        old, new = c.get('old'), c.get('new')
        cmpv = None
        extra = None
        for k, v in c.items():
            if k == 'cmp' or k.startswith('call:Ord>::cmp(') or k.startswith('call:Ord::cmp('):
                cmpv = v
                ops = c.get('cmp_operands', k)
                ctx.check(ops.index('opt_old') < ops.index('opt_new'), 'K4', '%s:cmp-operand-order' % name,
                          'comparison is old.cmp(new)', 'comparison operands are not (old, new): %s' % ops)
            elif k.startswith('cmp(') and 'providers' in k:
                extra = 'same' if v == 'Equal' else 'differ'
        key = (old, new, cmpv, extra)
        pushes = [norm_push(e[1]) for e in r['events'] if e[0] == 'push']
        advs = sorted(set((e[1], e[2]) for e in r['events'] if e[0] == 'adv'))
        exts = [(e[1], e[2]) for e in r['events'] if e[0] == 'extend']
        if key not in spec:
            ctx.bad('K4', '%s:unexpected-row:%s' % (name, key), '%s has a path with conditions %s that the merge-join table does not know'
                    % (name, {k: v for k, v in c.items() if k != 'cmp_operands'}))
            continue
        seen.add(key)
        exp_p, exp_a, exp_e = spec[key]
        ctx.check(pushes == exp_p, 'K4', '%s:row%s:push' % (name, key), 'pushes %s' % pushes,
                  '%s, row old=%s new=%s cmp=%s%s: pushes %s, expected %s' % (name, old, new, cmpv, (' providers ' + extra) if extra else '', pushes, exp_p))
        ctx.check(advs == exp_a, 'K4', '%s:row%s:advance' % (name, key), 'advances %s' % advs,
                  '%s, row old=%s new=%s cmp=%s: advances %s, expected %s' % (name, old, new, cmpv, advs, exp_a))
        if exp_e is not None:
            got = [(it, ''.join(re.findall(r'Action::(\w+)|AspaAction::(withdraw)', str(fn))[0]) if re.findall(r'Action::(\w+)|AspaAction::(withdraw)', str(fn)) else str(fn)) for it, fn in exts]
            ctx.check(got == exp_e, 'K4', '%s:row%s:tail' % (name, key), 'tail %s' % got,
                      '%s, row old=%s new=%s: tail handling %s, expected %s' % (name, old, new, got, exp_e))
        ctx.sample(dict(fn=name, row=[str(x) for x in key], pushes=[list(p) for p in pushes], advance=[list(a) for a in advs]))
    missing = set(spec) - seen
    ctx.check(not missing, 'K4', '%s:all-rows' % name, 'all %d rows present' % len(spec), 'rows missing in %s: %s' % (name, sorted(map(str, missing))))


A_OLD = [('old_iter', 'opt_old')]
A_NEW = [('new_iter', 'opt_new')]
A_BOTH = sorted(A_OLD + A_NEW)


def rule_standard(ctx):
    b = ctx.facts.find('payload::delta::StandardDelta::construct')
    if len(b) != 1:
        ctx.bad('K4', 'anchor:StandardDelta::construct', 'anchor missing')
        return
    ctx.bodies.add(b[0].nid)
    spec = {
        ('Some', 'Some', 'Less', None): ([('old', 'Withdraw')], A_OLD, None),
        ('Some', 'Some', 'Equal', None): ([], A_BOTH, None),
        ('Some', 'Some', 'Greater', None): ([('new', 'Announce')], A_NEW, None),
        ('Some', 'None', None, None): ([('old', 'Withdraw')], [], [('old_iter', 'Withdraw')]),
        ('None', 'Some', None, None): ([('new', 'Announce')], [], [('new_iter', 'Announce')]),
        ('None', 'None', None, None): ([], [], None),
    }
    check_rows(ctx, 'StandardDelta::construct', rows(ctx.facts, b[0]), spec, 'cmp')


def rule_aspa(ctx):
    b = ctx.body('payload::delta::AspaDelta::construct')
    spec = {
        ('Some', 'Some', 'Less', None): ([('old', 'Withdraw(own providers)')], A_OLD, None),
        ('Some', 'Some', 'Equal', 'differ'): ([('new', 'Update(old providers)')], A_BOTH, None),
        ('Some', 'Some', 'Equal', 'same'): ([], A_BOTH, None),
        ('Some', 'Some', 'Greater', None): ([('new', 'Announce')], A_NEW, None),
        ('Some', 'None', None, None): ([('old', 'Withdraw(own providers)')], [], [('old_iter', 'withdraw')]),
        ('None', 'Some', None, None): ([('new', 'Announce')], [], [('new_iter', 'Announce')]),
        ('None', 'None', None, None): ([], [], None),
    }
    check_rows(ctx, 'AspaDelta::construct', rows(ctx.facts, b), spec, 'key')
    w = ctx.body('payload::delta::AspaAction::withdraw')
    for p in enumerate_paths(w, ctx.facts):
        ctx.check(bool(re.match(r'^tuple\((call:Aspa::withdraw\(aspa\)|aspa),AspaAction::Withdraw\(aspa\.providers\)\)$', p.outcome)), 'K4', 'AspaAction::withdraw:shape',
                  'withdraw(a) = (a.withdraw(), Withdraw(a.providers)): same customer key, original providers retained', 'AspaAction::withdraw returns %s' % p.outcome)
    # keys compared are the customer keys of both sides
    for r in rows(ctx.facts, b):
        for k in list(r['conds']):
            kk = r['conds'].get('cmp_operands', '') if k == 'cmp' else k
            if 'Ord' in kk and 'cmp(' in kk:
                ctx.check('Aspa::key' in kk, 'K4', 'AspaDelta::construct:compare-by-key', 'ASPAs are compared by customer key', 'ASPAs compared by %s' % kk)


def rule_counters(ctx):
    for bpat, table in [('payload::delta::StandardDelta::push', {'Announce': 'announce_len', 'Withdraw': 'withdraw_len'}),
                        ('payload::delta::AspaDelta::push', {'Announce': 'announce_len', 'Update': 'announce_len', 'Withdraw': 'withdraw_len'})]:
        bs = ctx.facts.find(bpat)
        if len(bs) != 1:
            ctx.bad('K4', 'anchor:' + bpat, 'anchor missing')
            continue
        b = bs[0]
        ctx.bodies.add(b.nid)
        seen = {}
        for p in enumerate_paths(b, ctx.facts):
            lab = None
            for v, labs in p.cond_map().items():
                if not v.startswith('cmp('):
                    lab = labs
            written = set()
            for bb in p.blocks:
                for st in b.blocks[bb]['stmts']:
                    if st['s'] == 'assign' and len(st['lhs']) > 1 and st['lhs'][-1] in ('.announce_len', '.withdraw_len'):
                        written.add(st['lhs'][-1][1:])
            pushed = bool(p.called('Vec::push'))
            if lab is None:
                continue
            for l in lab:
                seen[l] = (written, pushed)
                ctx.check(written == {table.get(l)} and pushed, 'K4', '%s:%s' % (bpat, l), '%s increments %s and stores the item' % (l, sorted(written)),
                          '%s: action %s increments %s (expected %s), stored=%s' % (bpat, l, sorted(written), table.get(l), pushed))
        ctx.check(set(seen) == set(table), 'K4', '%s:all-actions' % bpat, 'all actions handled', 'actions handled: %s' % sorted(seen))
    # items is written nowhere else
    for adt in ('payload::delta::StandardDelta', 'payload::delta::AspaDelta'):
        n = 0
        for raw, line in ctx.facts._lines.items():
            if adt.split('::')[-1] not in line:
                continue
            b = ctx.facts.body_raw(raw)
            if b.rec.get('derive') or 'arbitrary' in b.nid:
                continue
            for site, how, a, f, place in field_writes(b):
                if a == adt and f == 'items' and how in ('mutref', 'assign'):
                    n += 1
                    ok = b.nid.split('::{')[0] in (adt + '::push',)
                    ctx.check(ok, 'K3', 'items-writer:%s<-%s' % (adt.split('::')[-1], b.nid), 'items mutated in push()',
                              '%s.items is mutated in %s: counts can diverge from the listed actions' % (adt, b.nid), loc=site.loc())
        ctx.floor('K3', 'mutations of %s.items' % adt, n, 1)


def rule_payload(ctx):
    b = ctx.body('payload::delta::PayloadDelta::construct')
    for p in enumerate_paths(b, ctx.facts):
        emp = None
        for v, labs in p.cond_map().items():
            if v.startswith('call:PayloadDelta::is_empty'):
                emp = list(labs)[0] if len(labs) == 1 else None
        if emp == 'true':
            ctx.check(p.outcome == 'Option::None()', 'K4', 'PayloadDelta::construct:empty=>None', 'empty delta -> None', 'empty delta -> %s' % p.outcome)
        elif emp == 'false':
            ctx.check(p.outcome.startswith('Option::Some('), 'K4', 'PayloadDelta::construct:nonempty=>Some', 'non-empty delta -> Some', 'non-empty delta -> %s' % p.outcome)
        elif re.match(r'^call:Option::filter\(Option::Some\(.*\),.*\{closure#\d+\}.*\)$', p.outcome or '') and \
                any(re.match(r'^Not\(call:PayloadDelta::is_empty\(', cp.outcome or '') for c in ctx.closures(b) for cp in enumerate_paths(c, ctx.facts)):
            # `Some(delta).filter(|d| !d.is_empty())`
            ctx.ok('K4', 'PayloadDelta::construct:empty=>None', 'empty delta filtered out of Some(..)')
        else:
            ctx.bad('K4', 'PayloadDelta::construct:is_empty-not-tested', 'construct does not branch on is_empty()')
    for l in agg_sites(b, 'payload::delta::PayloadDelta'):
        rv = l.stmt['rv']
        d = {f: describe(b.origin_of_operand(rv['ops'][rv['names'].index(f)])) for f in rv['names']}
        ctx.check(d['serial'] == 'call:Serial::add(serial,const(1))', 'K4', 'PayloadDelta::construct:serial', 'target serial = serial + 1', 'serial is %s' % d['serial'])
        for f, acc in (('origins', 'origin_refs'), ('router_keys', 'router_keys'), ('aspas', 'aspas')):
            m = re.search(r'%s\((old|new)\).*%s\((old|new)\)' % (acc, acc), d[f])
            ctx.check(bool(m) and m.group(1) == 'old' and m.group(2) == 'new', 'K4', 'PayloadDelta::construct:%s:(old,new)' % f,
                      '%s built from (old.%s, new.%s)' % (f, acc, acc), '%s built from %s' % (f, d[f]))
    e = ctx.body('payload::delta::PayloadDelta::is_empty')
    parts = set()
    for s in e.calls(['StandardDelta::is_empty', 'AspaDelta::is_empty']):
        parts.add(arg_path(s, 0).split('.')[-1])
    ctx.check(parts == {'origins', 'router_keys', 'aspas'}, 'K4', 'PayloadDelta::is_empty:all-parts', 'is_empty covers all three parts',
              'is_empty only looks at %s' % sorted(parts))
    for p in enumerate_paths(e, ctx.facts):
        vals = [list(l)[0] for v, l in p.cond_map().items() if 'is_empty' in v and len(l) == 1]
        if p.outcome in ('const(1)', 'var:_0') or True:
            pass
    for nm in ('payload::delta::StandardDelta::is_empty', 'payload::delta::AspaDelta::is_empty'):
        for bb in ctx.facts.find(nm):
            ctx.check(any(arg_path(s, 0).endswith('.items') for s in bb.calls('Vec::is_empty')), 'K4', '%s:items' % nm, 'emptiness = items.is_empty()', 'emptiness is not items.is_empty()')


RULES = [rule_standard, rule_aspa, rule_counters, rule_payload]
