"""C31 No fetches to dubious hosts unless allowed (K1 gates, K3 fetch primitives, K4 classifier)."""
import re
from lib.facts import (norm, path_matches, origin_is_call, guard_edges, Site, callee_matches)
from lib.rules import arg_path, arg_desc, edges_from_call, fmt_path, who_calls, strip_origin

from lib.tables import enumerate_paths  # noqa: E402

META = dict(
    level='other',
    explanation=(
        'K1 gates: the rsync fetch (RsyncCommand::update in rsync::Run::load_module) and the RRDP update '
        '(RepositoryUpdate::new/try_update in rrdp::Run::load_repository) are reachable only through the false edge of '
        '`filter_dubious` or the false edge of has_dubious_authority() evaluated on the very URI being fetched; '
        'filter_dubious is wired as !config.allow_dubious_hosts in both collectors. K3: the HTTP request primitives '
        '(HttpClient::response/conditional_response) are reachable in the crate call graph only below the gated '
        'load_repository or the TAL-derived load_ta; notification-listed URIs are accepted only on the true edge of '
        'has_matching_origins and redirects only on scheme/host/port equality. K4 classifier rule on '
        'UriExt::has_dubious_authority: three recognised tests (localhost, colon, IP literal); the positive edge of each '
        'reaches only `return true`, `return false` is dominated by the negative edge of all three, and the localhost '
        'comparison must be case-insensitive or on the canonical authority (URI hosts are case-insensitive).'),
    decides='gates on every path to a fetch; classification structure for the listed host forms incl. case variants',
    undecided='resolver-level aliases (127.1, trailing dot) which are not host forms the statement lists',
    trusted_base=['rustc MIR construction + callee resolution', 'std IpAddr::from_str accepts exactly IPv4/IPv6 literals',
                  'rpki::uri authority() returns the authority without userinfo, port included'],
    rules=['K1 fetch gates', 'K3 HTTP primitive reachability', 'K4 has_dubious_authority classifier', 'canonical-operand rule'],
)


def field_edges(body, field, labels):
    return guard_edges(body, lambda o: o.path().endswith('.' + field), labels)


def rule_gates(ctx):
    insts = [
        dict(body='collector::rsync::Run::load_module', sinks=['collector::rsync::RsyncCommand::update'], uri='uri'),
        dict(body='collector::rrdp::base::Run::load_repository',
             sinks=['RepositoryUpdate::new', 'RepositoryUpdate::try_update'], uri='rpki_notify'),
    ]
    for inst in insts:
        b = ctx.body(inst['body'])
        from lib.rules import AnyG, G
        gate = AnyG('!(filter_dubious && dubious)', [G('filter off', field='filter_dubious', labels={'false'}),
                                                     G('not dubious', call='UriExt::has_dubious_authority', labels={'false'})])
        gpass, gsw = gate.edges(b)          # direct switches, or a bool helper that stands for the conjunction
        fpass, dpass = gpass, []
        ctx.floor('K1', 'switches deciding on filter_dubious / has_dubious_authority in ' + b.nid, len(gsw), 1)
        # the classification is applied to the URI being fetched
        for s in b.calls('UriExt::has_dubious_authority'):
            p = arg_path(s, 0)
            ctx.check(p == inst['uri'], 'K1', '%s:dubious-check-on-fetched-uri' % b.nid,
                      'has_dubious_authority is evaluated on `%s`, the URI being fetched' % p,
                      'has_dubious_authority is evaluated on `%s`, not on the fetched URI `%s`' % (p, inst['uri']),
                      loc=s.loc())
        for sink in inst['sinks']:
            sites = b.calls(sink)
            ctx.floor('K1', '%s call in %s' % (sink, b.nid), len(sites), 1)
            for s in sites:
                ctx.call_sites += 1
                p = b.path_avoiding(s.bb, avoid_edges=fpass + dpass)
                ctx.check(p is None, 'K1', '%s:%s<=!(filter_dubious&&dubious)' % (b.nid, sink.split('::')[-1]),
                          '%s is reachable only if filter_dubious is off or the authority is not dubious' % sink,
                          '%s can be reached for a dubious authority while dubious hosts are not allowed' % sink,
                          loc=s.loc(), path=fmt_path(b, p))
                ctx.sample(dict(sink=sink, at=s.loc(), gate_edges=[list(e) for e in fpass + dpass]))
    # wiring of filter_dubious
    n = 0
    for bpat in ['collector::rsync::Collector::new', 'collector::rrdp::base::RrdpConfig']:
        pass
    for raw, line in ctx.facts._lines.items():
        if 'filter_dubious' not in line:
            continue
        b = ctx.facts.body_raw(raw)
        for site, s in b.stmts():
            if s['s'] != 'assign' or s['rv']['r'] != 'agg' or 'names' not in s['rv']:
                continue
            rv = s['rv']
            if 'filter_dubious' not in rv['names'] or b.rec.get('derive'):
                continue
            n += 1
            o = b.origin_of_operand(rv['ops'][rv['names'].index('filter_dubious')])
            ok = o.kind == 'un' and o.op == 'Not' and o.a.path().endswith('.allow_dubious_hosts')
            ctx.check(ok, 'K1', 'wiring:filter_dubious=%s' % b.nid,
                      'filter_dubious = !config.allow_dubious_hosts in %s' % b.nid,
                      'filter_dubious in %s is initialised from `%s`, not from !config.allow_dubious_hosts' % (b.nid, o.path()),
                      loc=site.loc())
    ctx.floor('K1', 'filter_dubious initialisers', n, 2)


GATES = ['collector::rrdp::base::Run::load_repository', 'collector::rrdp::base::Run::load_ta']
INNER = ['collector::rrdp::update::', 'collector::rrdp::http::', 'collector::rrdp::base::RepositoryUpdate::']


def rule_primitives(ctx):
    prims = ['collector::rrdp::http::HttpClient::response', 'collector::rrdp::http::HttpClient::conditional_response',
             'collector::rrdp::http::HttpClient::_response']
    seen = set()
    work = []
    for p in prims:
        ss = ctx.facts.callers(p)
        work += ss
    ctx.floor('K3', 'call sites of HTTP request primitives', len(work), 5)
    n = 0
    while work:
        s = work.pop()
        nid = s.body.nid.split('::{')[0]
        if nid in seen:
            continue
        seen.add(nid)
        n += 1
        if any(path_matches(nid, g) for g in GATES):
            ctx.ok('K3', 'http-chain-ends-in-gate:%s' % nid, 'HTTP request chain is rooted in gated body %s' % nid, loc=s.loc())
            continue
        inner = any(nid.startswith(i) for i in INNER)
        ctx.check(inner, 'K3', 'http-caller:%s' % nid,
                  '%s (inside the RRDP update machinery) issues/forwards HTTP requests' % nid,
                  '%s issues or forwards an HTTP request but is neither below the dubious-host gate (load_repository) '
                  'nor the TAL-derived load_ta' % nid, loc=s.loc())
        if inner:
            up = ctx.facts.callers(nid)
            if not up and '::{closure' not in s.body.nid:
                ctx.bad('K3', 'http-caller-unrooted:%s' % nid, '%s has no caller in the crate: chain cannot be tied to a gate' % nid)
            work += up
    # reqwest client use outside http.rs
    for pat in ['reqwest::blocking::Client::get', 'reqwest::blocking::RequestBuilder::send', 'reqwest::blocking::Client::execute']:
        for s in ctx.facts.callers(pat):
            ctx.check(s.body.nid.startswith('collector::rrdp::http::'), 'K3', 'reqwest:%s<-%s' % (pat.split('::')[-1], s.body.nid),
                      'reqwest is driven only from collector::rrdp::http', 'reqwest request issued from %s' % s.body.nid, loc=s.loc())
    # rsync process spawning only in RsyncCommand
    for s in ctx.facts.callers('re:(^|::)process::Command::(new|spawn|output|status)$'):
        nid = s.body.nid
        ok = nid.startswith('collector::rsync::RsyncCommand::') or nid.startswith('process::') or nid.startswith('operation::') \
            or nid.startswith('config::')
        ctx.check(ok, 'K3', 'spawn<-%s' % nid, 'process spawning in %s' % nid,
                  'a subprocess is spawned from %s (rsync must only be started by RsyncCommand below the gate)' % nid, loc=s.loc())
    who_calls(ctx, 'K3', 'collector::rsync::RsyncCommand::update', ['collector::rsync::Run::load_module'])
    # notification-listed URIs and redirects
    b = ctx.body('collector::rrdp::update::Notification::from_response')
    pe, oe, sw = edges_from_call(b, 'has_matching_origins', {'true'})
    lits = [site for site, s in b.stmts() if s['s'] == 'assign' and s['rv']['r'] == 'agg'
            and norm(s['rv'].get('adt') or '').endswith('update::Notification')]
    ctx.floor('K1', 'Notification literal in from_response', len(lits), 1)
    for l in lits:
        p = b.path_avoiding(l.bb, avoid_edges=pe)
        ctx.check(bool(pe) and p is None, 'K1', 'from_response:Notification<=has_matching_origins',
                  'a Notification is produced only if snapshot/delta URIs share the notification origin',
                  'a Notification can be produced without the same-origin check of its snapshot/delta URIs', loc=l.loc())
    rp = ctx.body('collector::rrdp::http::HttpClient::redirect_policy')
    eqe, _o, eqsw = edges_from_call(rp, 're:PartialEq.*::eq$', {'true'})
    none_e, _o2, _s2 = edges_from_call(rp, 're:::first$', {'None'})
    for s in rp.calls('reqwest::redirect::Attempt::follow'):
        p = rp.path_avoiding(s.bb, avoid_edges=eqe + none_e)
        ctx.check(p is None, 'K1', 'redirect_policy:follow<=same-origin',
                  'redirects are followed only when (scheme, host, port) are unchanged',
                  'a redirect can be followed to a different origin', loc=s.loc(), path=fmt_path(rp, p))
    ctx.floor('K1', 'origin equality test in redirect_policy', len(eqsw), 1)


def const_args(body, call_origin):
    vals = []
    for a in call_origin.args:
        for leaf in a.leaves():
            if leaf.kind == 'const':
                vals.append(str(leaf.value))
    return vals


def _test_kind(v):
    if 'localhost' in v:
        return 'localhost'
    if re.search(r"const\(':'\)|const\(\":\"\)", v):
        return 'colon'
    if re.search(r'Ip(v4|v6)?Addr', v):
        return 'ip'
    return None


def rule_classifier(ctx):
    """has_dubious_authority as a truth table over its three tests: any positive test => true; false only when all three
    are negative. Shape-independent (early returns, one `a || b || c` expression, temporaries)."""
    b = ctx.body('utils::uri::UriExt::has_dubious_authority')
    POS = {'true', 'Ok', 'Some'}
    kinds_seen = set()
    n = 0
    for p in enumerate_paths(b, ctx.facts):
        if p.kind != 'return':
            continue
        n += 1
        verdicts = {}
        unknown = []
        for v, labs in p.cond_map().items():
            k = _test_kind(v)
            if k is None:
                if 'parse' in v and any('IpAddr' in t for c in b.calls('re:::parse$') for t in (c.term['fn'].get('targs') or [])):
                    k = 'ip'
                else:
                    unknown.append(v)
                    continue
            neg = v.startswith('Not(')
            labs = set(labs)
            if v.startswith('cmp(') or v.startswith('Not(cmp('):
                pos = labs == {'Equal'}
                negl = bool(labs) and 'Equal' not in labs
            else:
                pos = bool(labs & POS) and not (labs - POS)
                negl = bool(labs) and not (labs & POS)
            if not (pos or negl):
                continue
            verdicts[k] = pos != neg
            kinds_seen.add(k)
        o = p.outcome or ''
        ok_unknown = not unknown
        ctx.check(ok_unknown, 'K4', 'has_dubious_authority:only-the-three-tests-decide', 'no other condition decides',
                  'has_dubious_authority also branches on %s' % unknown)
        if o == 'const(1)':
            ctx.check(any(verdicts.values()), 'K4', 'has_dubious_authority:true<=some-test-positive', 'true only after a positive test',
                      'has_dubious_authority returns true on a path without a positive test (%s)' % verdicts)
        elif o == 'const(0)':
            ctx.check(set(verdicts) == {'localhost', 'colon', 'ip'} and not any(verdicts.values()), 'K4', 'has_dubious_authority:false<=all-negative',
                      '`false` only when the host is not localhost, has no colon and is not an IP address',
                      'has_dubious_authority returns false although not all three tests were negative (%s): a host form is only '
                      'conditionally filtered' % verdicts)
        else:
            # the last test returned as the result: `.. || c`
            k = _test_kind(o)
            kinds_seen.add(k) if k else None
            rest = {'localhost', 'colon', 'ip'} - {k}
            good = k is not None and not o.startswith('Not(') and set(verdicts) == rest and not any(verdicts.values())
            ctx.check(good, 'K4', 'has_dubious_authority:result-expression', 'the result is the last test, the others were negative',
                      'has_dubious_authority returns `%s` with the other tests at %s' % (o, verdicts))
        for k, v in verdicts.items():
            if v:
                ctx.check(o == 'const(1)', 'K4', 'has_dubious_authority:%s=>true' % k,
                          'a positive %s test always classifies the authority as dubious' % k,
                          'after a positive %s test the function returns `%s`: the host form is only conditionally filtered' % (k, o))
    ctx.floor('K4', 'paths of has_dubious_authority', n, 2)
    for k in ('localhost', 'colon', 'ip'):
        ctx.floor('K4', 'recognised %s test in has_dubious_authority' % k, 1 if k in kinds_seen else 0, 1)
    ctx.sample(dict(tests=sorted(x for x in kinds_seen if x), paths=n))
    # canonical-operand rule for the localhost comparison
    nl = 0
    for c in b.calls('re:.'):
        ds = [arg_desc(c, i) for i in range(len(c.term['args']))]
        if not any('localhost' in d for d in ds):
            continue
        nl += 1
        ci = 'eq_ignore_ascii_case' in c.callee
        canon = any(x in d for d in ds for x in ('canonical_authority', 'to_ascii_lowercase', 'to_lowercase'))
        ctx.check(ci or canon, 'K4', 'has_dubious_authority:localhost-case-insensitive',
                  'the localhost comparison is case-insensitive (%s)' % c.callee,
                  'the authority is compared with "localhost" case-sensitively (%s on the raw authority): '
                  'rsync://LOCALHOST/... or https://LocalHost/... passes the filter and is fetched' % c.callee,
                  loc=c.loc())
    ctx.floor('K4', 'localhost comparison call', nl, 1)
    # the classified string is the URI's authority
    for imp in ['<rpki::uri::Https as utils::uri::UriExt>::get_authority', '<rpki::uri::Rsync as utils::uri::UriExt>::get_authority']:
        gb = ctx.body(imp)
        ok = bool(gb.calls(['rpki::uri::Https::authority', 'rpki::uri::Rsync::authority',
                            'rpki::uri::Https::canonical_authority', 'rpki::uri::Rsync::canonical_authority']))
        ctx.check(ok, 'K4', 'get_authority:%s' % imp, '%s returns the URI authority' % imp, '%s does not return the URI authority' % imp)
    ga = b.calls('UriExt::get_authority')
    ctx.floor('K4', 'get_authority call in has_dubious_authority', len(ga), 1)


RULES = [rule_gates, rule_primitives, rule_classifier]
