"""C16 HTTP 304 only when the client already has the served version (K4, K5, K13 clauses)."""
import re
from lib.facts import Site, origin_is_call
from lib.rules import G, require_guards, arg_desc, who_calls, field_writes, writers_of_field, fmt_path
from lib.tables import enumerate_paths, describe, order_edges
from props.C15 import guard_of

from lib.rules import owned_by  # noqa: E402

from lib.tables import strip_suffix  # noqa: E402

META = dict(
    level='other',
    explanation=(
        'Clauses. (1) K4 on http::response::Response::maybe_not_modified: a 304 (call of not_modified) is reachable only '
        'through the equality edge of an If-None-Match tag with the current ETag (or `*`), or through the `>=` edge of the '
        'comparison of the parsed If-Modified-Since date with `done`; that comparison must be on the full-resolution '
        'DateTime values: the Last-Modified the server issues is `created` truncated to whole seconds, so a date issued for '
        'an older version is strictly smaller than any later `created` (which always carries sub-second precision or was '
        'bumped by a full second) - this is what keeps the window between installing new data and recording its completion '
        'time harmless; a comparison at second granularity re-opens that window. (2) K5: in http::payload the ETag inputs '
        '(session, serial), the snapshot and `created` are read under one read guard, and that `created` is what '
        'maybe_not_modified / last_modified receive. (3) K13: PayloadHistory.created is assigned only in mark_update_done, '
        'either Some(now) or Some(old + 1 s) on the `now.timestamp() <= old.timestamp()` edge (strict whole-second '
        'monotonicity).'),
    decides='the three necessary conditions above; the atomic-set rule over {deltas,current,created} is deliberately not armed (see DESIGN.md C16)',
    undecided='HTTP date parsing (parse_http_date); clock monotonicity',
    trusted_base=['rustc MIR construction + callee resolution', 'chrono DateTime ordering'],
    rules=['K4 304 guards + full-resolution date comparison', 'K5 validators and data from one guard', 'K13 created monotone', 'K13/AI serial advances by one per change for every history-size (shared with C14)'],
)


def _closure_compares_etag(ctx, b, var):
    """`call:Iterator::any(EtagsIter(..), maybe_not_modified::{closure#N}(etag))`: the closure returns `item.trim() == etag`"""
    m = re.search(r'\{closure#(\d+)\}', var)
    if not m:
        return False
    for c in ctx.closures(b):
        if not c.nid.endswith('{closure#%s}' % m.group(1)):
            continue
        outs = [p.outcome or '' for p in enumerate_paths(c, ctx.facts) if p.kind == 'return']
        return bool(outs) and all(re.search(r'PartialEq.*::eq\(', o) and 'upvar:etag' in o and 'starts_with' not in o for o in outs)
    return False


def validator_of(ctx, b, cm):
    """The validator a path to `not_modified` rests on -> (kind, variable) or None.
    Kinds: star (`value == "*"`), etag-equal (an If-None-Match item equals the ETag), date>=done (If-Modified-Since not
    older than the completion time, at full resolution) / date>=done@seconds."""
    for v, labs in cm.items():
        base = strip_suffix(v)
        labs = set(labs)
        if base.startswith('cmp(') and 'const("*")' in base and labs == {'Equal'}:
            return ('star', base)
        if base.startswith('cmp(') and re.search(r'[,(]etag\)$', base) and labs == {'Equal'}:
            return ('etag-equal', base)
        if base.startswith('call:Iterator::any(') and 'EtagsIter' in base and labs == {'true'} and _closure_compares_etag(ctx, b, base):
            return ('etag-equal', base)
        if base.startswith('cmp(') and 'parse_http_date' in base and 'done' in base:
            date_first = base.index('parse_http_date') < base.rindex('done')
            want = {'Equal', 'Greater'} if date_first else {'Equal', 'Less'}
            if labs and labs <= want:
                full = 'timestamp' not in base and 'Duration' not in base
                return ('date>=done' if full else 'date>=done@seconds', base)
    return None


def rule_guards(ctx):
    b = ctx.body('http::response::Response::maybe_not_modified')
    sinks = b.calls('http::response::Response::not_modified')
    ctx.floor('K4', 'not_modified call sites', len(sinks), 1)
    kinds = set()
    n = 0
    for p in enumerate_paths(b, ctx.facts, max_visits=2):
        if not p.called('http::response::Response::not_modified'):
            continue
        n += 1
        s = p.called('http::response::Response::not_modified')[-1]
        found = validator_of(ctx, b, p.cond_map())
        ctx.check(found is not None, 'K4', 'maybe_not_modified:304-guarded:%s' % (found[0] if found else 'unguarded'),
                  '304 only on %s' % (found[0] if found else '?'),
                  'a 304 Not Modified can be produced at %s without a matching validator (conditions of the path: %s)'
                  % (s.loc(), sorted(p.cond_map())[-3:]), loc=s.loc())
        if found:
            kinds.add(found[0])
            if found[0] == 'date>=done@seconds':
                ctx.bad('K4', 'maybe_not_modified:date-comparison-full-resolution',
                        'If-Modified-Since is compared with the completion time at second granularity (%s): the Last-Modified '
                        'issued for the previous version (truncated to seconds) then satisfies `>=` against the still-unchanged '
                        '`created` during the window between installing new data and mark_update_done, and the client gets 304 '
                        'for data it does not have' % found[1][:140], loc=s.loc())
    ctx.floor('K4', 'paths to not_modified', n, 3)
    ctx.call_sites += len(sinks)
    ctx.sample(dict(validators=sorted(kinds), paths=n))
    ctx.check({'etag-equal', 'star'} <= kinds and ('date>=done' in kinds or 'date>=done@seconds' in kinds), 'K4',
              'maybe_not_modified:all-validators', 'ETag, * and date validators present', 'validators present: %s' % sorted(kinds))
    if 'date>=done' in kinds:
        ctx.ok('K4', 'maybe_not_modified:date-comparison-full-resolution', 'date >= done is a DateTime comparison')


def rule_one_guard(ctx):
    b = ctx.body('http::payload::State::handle_get_or_head')
    gs = {}
    for acc in ('session', 'serial', 'created', 'current'):
        for s in b.calls('payload::history::PayloadHistory::' + acc):
            g = guard_of(b, b.origin_of_operand(s.term['args'][0]))
            gs[acc] = g.loc() if g else None
    # the combined accessor reads both under the guard it is called on
    for s in b.calls('payload::history::PayloadHistory::session_and_serial'):
        g = guard_of(b, b.origin_of_operand(s.term['args'][0]))
        for acc in ('session', 'serial'):
            gs.setdefault(acc, g.loc() if g else None)
    ctx.check(len(set(gs.values())) == 1 and None not in gs.values() and len(gs) == 4, 'K5', 'payload-handler:validators-one-guard',
              'session, serial, created and the snapshot are read under one read guard (%s)' % gs,
              'ETag inputs, created and snapshot are read under different lock acquisitions: %s' % gs)
    for s in b.calls('http::response::Response::maybe_not_modified'):
        d1, d2 = arg_desc(s, 1), arg_desc(s, 2)
        ctx.check('PayloadHistory::created' in d2, 'prov', 'payload-handler:maybe_not_modified:done=created',
                  'the completion time compared is history.created()', 'maybe_not_modified(done=%s)' % d2, loc=s.loc())
    for s in b.calls('http::response::ResponseBuilder::last_modified'):
        d = arg_desc(s, 1)
        ctx.check('PayloadHistory::created' in d, 'prov', 'payload-handler:last_modified=created', 'Last-Modified is history.created()', 'Last-Modified is %s' % d, loc=s.loc())
    # etag from session & serial
    from lib.fmtctx import placeholders
    phs = [p for p in placeholders(b, ctx.repo) if p.found and p.quoted]
    tys = sorted(p.ty for p in phs)
    ctx.check(any('u64' in t for t in tys) and any('Serial' in t for t in tys), 'prov', 'payload-handler:etag=session-serial',
              'ETag is built from session and serial', 'ETag placeholders: %s' % tys)


def rule_created(ctx):
    ws = [(b, site, how) for b, site, how, f in writers_of_field(ctx, 'payload::history::PayloadHistory') if f == 'created' and how == 'assign']
    ctx.floor('K13', 'assignments to PayloadHistory.created', len(ws), 1)
    for b, site, how in ws:
        ok, who = owned_by(ctx, b.nid, ['SharedHistory::mark_update_done'])
        ctx.check(ok, 'K13', 'created-writer:%s' % who, 'created written in mark_update_done',
                  'PayloadHistory.created is written in %s' % b.nid, loc=site.loc())
    b = ctx.body('payload::history::SharedHistory::mark_update_done')
    paths = enumerate_paths(b, ctx.facts)
    n = 0
    for p in paths:
        cm = p.cond_map()
        had = [labs for v, labs in cm.items() if v.endswith('.created') or v.endswith('created')]
        tcmp = [(v, labs) for v, labs in cm.items() if v.startswith('cmp(') and 'timestamp' in v]
        # which value is stored on this path (path-specific description)
        val = None
        for (bb, j), (fld, desc) in sorted(p.field_stores.items()):
            if fld == 'created':
                val = desc
        if val is None:
            continue
        n += 1
        bumped = 'Add' in val or 'add' in val
        if bumped:
            ok = bool(tcmp) and all(('Less' in l or 'Equal' in l) for _v, l in tcmp)
            ctx.check(ok and 'try_seconds(const(1))' in val, 'K13', 'created:bump-by-1s-when-same-second',
                      'created = old + 1 s only when now is not in a later second', 'created bumped under %s: %s' % (tcmp, val[:80]))
        else:
            ctx.check('Utc::now' in val, 'K13', 'created:now', 'created = now', 'created set to %s' % val[:80])
    ctx.floor('K13', 'paths assigning created', n, 2)


from props.C14 import rule_serial_step, rule_abstract  # noqa: E402  (the ETag is session-serial: the serial must step at every change)

RULES = [rule_guards, rule_one_guard, rule_created, rule_serial_step, rule_abstract]
