"""C14 Serials advance once per change and retained history is bounded (K3 + finite abstract interpretation)."""
import re
from lib.rules import arg_desc, who_calls, field_writes, writers_of_field, arg_path, user_local_of, G, require_guards
from lib.tables import enumerate_paths, describe
from lib.facts import norm, path_matches

from lib.rules import owned_by  # noqa: E402

from lib.tables import strip_suffix  # noqa: E402

META = dict(
    level='other',
    explanation=(
        'K3: the delta queue is mutated only in PayloadHistory::push_delta, which is called only from SharedHistory::update on '
        'the edge where PayloadDelta::construct returned Some (data changed); the serial is derived from deltas.front() '
        '(0 when empty) and the new delta is built with serial()+1 (C11), so the serial advances by exactly one per change '
        'iff after every push the pushed delta is at the front of a NON-EMPTY queue. Finite abstract interpretation of '
        'push_delta: its paths are enumerated (conditions as order relations between VecDeque::len(self.deltas) and '
        'self.keep, events pop_back / push_front / truncate) and this transfer function is iterated over the abstract state '
        '(len, keep) for keep in 0..5 from len = 0 for 40 steps; the invariant 1 <= len <= max(keep, 1) must hold after every '
        'step (bounded history for every accepted history-size incl. 0, and a derivable serial).'),
    decides='boundedness and non-emptiness invariant of the history for every history-size; single increment per change',
    undecided='arithmetic inside VecDeque; Serial::add wrap-around',
    trusted_base=['rustc MIR construction + callee resolution', 'VecDeque push_front/pop_back/truncate semantics (modelled)'],
    rules=['K13 construct numbers serial+1 / merge keeps the newer serial', 'K3 queue writers', 'K1 push only on change', 'abstract interpretation of push_delta over (len, keep)', 'AI serial() steps by one per change (queue of serials, serial re-assignment modelled)'],
)


def rule_writers(ctx):
    who_calls(ctx, 'K3', 'payload::history::PayloadHistory::push_delta', ['payload::history::SharedHistory::update'])
    n = 0
    for b, site, how, f in writers_of_field(ctx, 'payload::history::PayloadHistory'):
        if f != 'deltas':
            continue
        n += 1
        ok, who = owned_by(ctx, b.nid, ['PayloadHistory::push_delta'])
        ctx.check(ok, 'K3', 'deltas-writer<-%s' % who, 'deltas mutated in push_delta',
                  'PayloadHistory.deltas is mutated (%s) in %s' % (how, b.nid), loc=site.loc())
    ctx.floor('K3', 'mutations of deltas', n, 2)
    u = ctx.body('payload::history::SharedHistory::update')
    ps = u.calls('payload::history::PayloadHistory::push_delta')
    ctx.floor('K1', 'push_delta call in update', len(ps), 1)
    # only when construct returned Some
    n_ok = 0
    for p in enumerate_paths(u, ctx.facts):
        pushed = bool(p.called('payload::history::PayloadHistory::push_delta'))
        d = [labs for v, labs in p.cond_map().items() if v.startswith('var:delta') or 'and_then' in v or re.match(r'^call:PayloadDelta::construct(\([^@]*\))?$', v)]
        changed = any(l == {'Some'} for l in d)
        unchanged = any(l == {'None'} for l in d)
        if pushed:
            # the first snapshot ever (no current data set) is not a change of serial: a delta exists only against a current one
            cur_some = any(('PayloadHistory::current(' in v or v.startswith('var:current')) and set(l) == {'Some'} and not v.startswith('cmp(')
                           for v, l in p.cond_map().items())
            ctx.check(cur_some, 'K1', 'update:push<=current-Some', 'a delta is pushed only against an existing current data set',
                      'push_delta on a path that has not established that a current data set exists: the very first snapshot would '
                      'already advance the serial / be diffed against something that was never served')
        if pushed:
            n_ok += 1
            ctx.check(changed and not unchanged, 'K1', 'update:push<=delta-Some', 'a delta is pushed only if the data changed', 'push_delta on a path without a delta')
        if changed:
            ctx.check(pushed, 'K1', 'update:delta-Some=>push', 'a changed data set always pushes its delta', 'a change does not push a delta (serial would not advance)')
    ctx.floor('K1', 'pushing paths in update', n_ok, 1)
    for s in ps:
        d = arg_desc(s, 1)
        per_path = [(pp.event_args.get(s.bb) or [None, ''])[1] or '' for pp in enumerate_paths(u, ctx.facts) if any(e.bb == s.bb for e in pp.events)]
        ctx.check('PayloadDelta::construct' in d or ('and_then' in d and any(c.calls('payload::delta::PayloadDelta::construct') for c in ctx.closures(u)))
                  or (per_path and all('PayloadDelta::construct' in x for x in per_path)),
                  'prov', 'update:pushed-delta=constructed', 'the pushed delta is the constructed one', 'pushed %s' % d)
    for s in u.calls('payload::delta::PayloadDelta::construct') + [x for c in ctx.closures(u) for x in c.calls('payload::delta::PayloadDelta::construct')]:
        d = arg_desc(s, 2)
        ctx.check('serial' in d, 'prov', 'update:construct:serial', 'the delta is constructed on top of the current serial', 'construct(.., %s)' % d, loc=s.loc())
    sb = ctx.body('payload::history::PayloadHistory::serial')
    ok = any('front' in s.callee for s in sb.calls('VecDeque::front')) and 'deltas' in arg_path(sb.calls('VecDeque::front')[0], 0)
    ctx.check(ok, 'K3', 'serial=front-delta', 'serial() is the serial of deltas.front()', 'serial() is no longer derived from deltas.front()')


def rule_serial_step(ctx):
    """The delta built for a change carries serial+1 (and merge keeps the newer serial)."""
    from lib.rules import agg_sites
    from lib.tables import describe
    b = ctx.body('payload::delta::PayloadDelta::construct')
    lits = agg_sites(b, 'payload::delta::PayloadDelta')
    ctx.floor('K13', 'PayloadDelta literal in construct', len(lits), 1)
    for l in lits:
        rv = l.stmt['rv']
        d = describe(b.origin_of_operand(rv['ops'][rv['names'].index('serial')]))
        ctx.check(bool(re.match(r'^call:Serial::add\(serial,const\(1\)\)$', d)), 'K13', 'construct:serial=serial+1',
                  'a new delta is numbered current serial + 1',
                  'PayloadDelta::construct numbers the new delta `%s` instead of serial.add(1): the serial does not advance by exactly '
                  'one per change (clients at the old serial are told nothing changed, or serials are skipped)' % d, loc=l.loc())
    m = ctx.body('payload::delta::PayloadDelta::merge')
    for l in agg_sites(m, 'payload::delta::PayloadDelta'):
        rv = l.stmt['rv']
        d = describe(m.origin_of_operand(rv['ops'][rv['names'].index('serial')]))
        ctx.check(d == 'new.serial', 'K13', 'merge:serial=newer', 'a merged delta carries the newer serial',
                  'PayloadDelta::merge numbers the merged delta `%s` instead of new.serial' % d, loc=l.loc())


LEN = 'call:VecDeque::len(self.deltas)'


def _split_top(s):
    out, depth, cur = [], 0, ''
    for ch in s:
        if ch == ',' and depth == 0:
            out.append(cur)
            cur = ''
            continue
        depth += ch == '('
        depth -= ch == ')'
        cur += ch
    out.append(cur)
    return out


def _len_cmp_operand(base):
    """`cmp(len(deltas), X)` -> (True, X); `cmp(X, len(deltas))` -> (False, X); else None"""
    if not (base.startswith('cmp(') and base.endswith(')')):
        return None
    ops = _split_top(base[4:-1])
    if len(ops) != 2:
        return None
    if ops[0] == LEN:
        return True, ops[1]
    if ops[1] == LEN:
        return False, ops[0]
    return None


def _eval_bound(d, keep):
    """value of an expression over `self.keep` and constants, or None"""
    if d == 'self.keep':
        return keep
    m = re.match(r'^const\((\d+)\)$', d)
    if m:
        return int(m.group(1))
    m = re.match(r'^call:(?:\w+::)*(max|min)\((.*)\)$', d) or re.match(r'^call:.*Ord>::(max|min)\((.*)\)$', d)
    if m:
        ops = [_eval_bound(x, keep) for x in _split_top(m.group(2))]
        if len(ops) == 2 and None not in ops:
            return max(ops) if m.group(1) == 'max' else min(ops)
    m = re.match(r'^(Add|Sub)\((.*)\)$', d) or re.match(r'^call:usize::(saturating_add|saturating_sub|wrapping_add)\((.*)\)$', d)
    if m:
        ops = [_eval_bound(x, keep) for x in _split_top(m.group(2))]
        if len(ops) == 2 and None not in ops:
            return ops[0] + ops[1] if 'dd' in m.group(1) else max(ops[0] - ops[1], 0)
    return None


def rule_abstract(ctx):
    b = ctx.body('payload::history::PayloadHistory::push_delta')
    # functions that assign PayloadDelta.serial after construction (none on the reference tree)
    serial_setters = sorted(set(w[0].nid.split('::{')[0] for w in writers_of_field(ctx, 'payload::delta::PayloadDelta')
                                if w[3] == 'serial' and w[2] == 'assign'))
    for w in serial_setters:
        cs = ctx.facts.callers(w)
        ctx.check(bool(cs) and all(c.body.nid.split('::{')[0].endswith('PayloadHistory::push_delta') for c in cs), 'K3',
                  'PayloadDelta.serial:reassigned-only-in-push_delta:%s' % w, 'serial re-assignment is part of the modelled push',
                  'PayloadDelta.serial is re-assigned in %s, called from %s: the serial of a delta is fixed at construction (current serial + 1)'
                  % (w, sorted(set(c.body.nid for c in cs))))
    paths = enumerate_paths(b, ctx.facts, max_visits=3)
    prog = []
    for p in paths:
        if p.kind != 'return':
            # a path cut off after max_visits loop iterations: more evictions per call than the abstract run ever needs
            continue
        conds = []
        for v, labs, _bb in p.conds:
            base = strip_suffix(v)
            other = _len_cmp_operand(base)
            if other is not None and other[1] == 'self.keep':
                rels = set(labs) if other[0] else set({'Less': 'Greater', 'Greater': 'Less', 'Equal': 'Equal'}[x] for x in labs)
                conds.append(('lenkeep', rels))
            elif other is not None and _eval_bound(other[1], 0) is not None:
                # len compared with an expression over keep and constants (`max(keep, 1)`, `keep + 1`, a constant)
                rels = set(labs) if other[0] else set({'Less': 'Greater', 'Greater': 'Less', 'Equal': 'Equal'}[x] for x in labs)
                conds.append(('lenexpr', (other[1], rels)))
            elif base.startswith('call:VecDeque::is_empty(self.deltas)') or base.startswith('Not(call:VecDeque::is_empty(self.deltas)'):
                neg = base.startswith('Not(')
                want_empty = ('true' in labs) != neg
                conds.append(('empty', want_empty))
            elif base.startswith('cmp(') or base.startswith('call:') or base.startswith('Not('):
                if 'pop_back' in base or 'pop_front' in base:
                    continue
                ctx.bad('AI', 'push_delta:unknown-condition', 'push_delta branches on `%s` (not a test of the queue length): shape not recognised' % base)
                return
        evs = []
        for s in p.events:
            nm = s.callee.split('::')[-1]
            if nm in ('pop_back', 'pop_front', 'push_front', 'push_back', 'truncate', 'clear'):
                arg = arg_desc(s, 1) if len(s.term['args']) > 1 else None
                evs.append((nm, arg, s.bb))
            elif any(path_matches(norm(s.callee), w) for w in serial_setters):
                # the delta's serial is re-assigned inside push_delta: modelled (value = arg)
                evs.append(('set_serial', arg_desc(s, 1) if len(s.term['args']) > 1 else None, s.bb))
        # timeline: conditions and queue operations in path order
        cq, eq = {}, {}
        ci = 0
        for v, labs, bb in p.conds:
            base = strip_suffix(v)
            if 'pop_back' in base or 'pop_front' in base:
                continue
            if ci < len(conds):
                cq.setdefault(bb, []).append(conds[ci])
                ci += 1
        for nm, arg, bb in evs:
            eq.setdefault(bb, []).append((nm, arg))
        timeline = []
        for bb in p.blocks:
            if eq.get(bb):
                timeline.append(('ev', eq[bb].pop(0)))
            if cq.get(bb):
                timeline.append(('cond', cq[bb].pop(0)))
        prog.append((conds, [(nm, arg) for nm, arg, _bb in evs], timeline))
    ctx.floor('AI', 'paths of push_delta', len(prog), 1)
    ctx.extra['transfer_function'] = [dict(conditions=[str(c) for c in cs], events=es) for cs, es, _t in prog]

    def rel(a, b):
        return 'Less' if a < b else ('Equal' if a == b else 'Greater')

    def run(timeline, q, keep, new_serial):
        """-> (queue after the call | None if a condition fails, why)"""
        q = list(q)
        d = new_serial
        for what, x in timeline:
            if what == 'cond':
                kind, c = x
                if kind == 'lenkeep':
                    holds = rel(len(q), keep) in c
                elif kind == 'empty':
                    holds = (len(q) == 0) == c
                else:
                    holds = rel(len(q), _eval_bound(c[0], keep)) in c[1]
                if not holds:
                    return None
            else:
                nm, arg = x
                if nm == 'pop_back':
                    q = q[:-1]
                elif nm == 'pop_front':
                    q = q[1:]
                elif nm == 'push_front':
                    q = [d] + q
                elif nm == 'push_back':
                    q = q + [d]
                elif nm == 'truncate':
                    q = q[:keep] if (arg and 'keep' in arg) else q
                elif nm == 'clear':
                    q = []
                elif nm == 'set_serial':
                    if arg and re.match(r'^call:Serial::add\(call:PayloadHistory::serial\(self\),const\(1\)\)$', arg):
                        d = (q[0] if q else 0) + 1      # serial() at this point of the call
                    else:
                        d = None
        return q
    for keep in range(0, 6):
        q = []
        for step in range(40):
            cur = q[0] if q else 0
            # choose the path whose conditions hold, evaluating them in order with the evolving queue
            nq = None
            for conds, evs, tl in prog:
                nq = run(tl, q, keep, cur + 1)
                if nq is not None:
                    break
            if nq is None:
                ctx.bad('AI', 'push_delta:no-path:keep=%d,len=%d' % (keep, len(q)), 'no path of push_delta is enabled for len=%d keep=%d' % (len(q), keep))
                return
            q = nq
            ln = len(q)
            bound = max(keep, 1)
            if ln > bound:
                ctx.bad('AI', 'push_delta:bounded:keep=%d' % keep,
                        'abstract run with history-size %d: after %d pushes the queue holds %d deltas (> max(keep,1)=%d): the history is '
                        'not bounded for this configuration' % (keep, step + 1, ln, bound), loc=b.file + ':%d' % b.line)
                break
            if ln < 1:
                ctx.bad('AI', 'push_delta:non-empty:keep=%d' % keep,
                        'abstract run with history-size %d: after a push the queue is empty, so serial() (taken from deltas.front()) does '
                        'not advance although the data changed' % keep, loc=b.file + ':%d' % b.line)
                break
            if q[0] != cur + 1:
                ctx.bad('AI', 'push_delta:serial-steps-by-one:keep=%d' % keep,
                        'abstract run with history-size %d: change no. %d moves serial() from %d to %s instead of %d: the serial does not '
                        'advance by exactly one per change' % (keep, step + 1, cur, q[0], cur + 1), loc=b.file + ':%d' % b.line)
                break
        else:
            ctx.ok('AI', 'push_delta:invariant:keep=%d' % keep, '1 <= len <= max(keep,1) and serial() steps by one for 40 abstract steps (history-size %d)' % keep)
        ctx.sample(dict(history_size=keep, final_len=len(q)))
    # the pushed element goes to the front
    for s in b.calls(['VecDeque::push_front', 'VecDeque::push_back']):
        ctx.check(s.callee.endswith('push_front'), 'AI', 'push_delta:pushes-front', 'new delta goes to the front (defines the serial)', 'new delta pushed at the back', loc=s.loc())
    pops = b.calls(['VecDeque::pop_back', 'VecDeque::pop_front'])
    for s in pops:
        ctx.check(s.callee.endswith('pop_back'), 'AI', 'push_delta:evicts-oldest', 'eviction removes the oldest (back)', 'eviction removes the newest', loc=s.loc())


RULES = [rule_serial_step, rule_writers, rule_abstract]
