"""C02 Valid payload is never silently dropped (K4 outcomes, K1, error-source allowlist)."""
import re
from lib.facts import norm, path_matches, Site
from lib.rules import (G, require_guards, arg_desc, agg_sites, who_calls, arg_path, fmt_path)
from lib.tables import enumerate_paths, describe

META = dict(
    level='other',
    explanation=(
        'Outcome tables (K4) over the per-object processors in engine.rs: every acyclic path of process_object returns the '
        'constant Ok(true) or propagates an error that originates in a processor callback (so a faulty object can never '
        'turn into "reject the whole publication point"); every path of process_cer/process_ca_cer/process_router_cert/'
        'process_roa/process_aspa/process_gbr returns Ok(()) or propagates a processor-callback error, and on every path '
        'on which the decode/validate/CRL guards pass, the payload sink IS called (no success path that skips the sink). '
        'K1: process_collected returns the collected child-CA list (not a fresh empty vector) exactly on the accept path '
        'and calls accept_point there; process_stored likewise; an empty task list is returned only after reject_point. '
        'In process_ca_task every child task is either queued or processed. commit() pushes the point whenever it is '
        'non-empty and SnapshotBuilder::process_pub_point drains all three payload vectors. Shared with C04 (same rule '
        'function): StoredPoint::_update touches the in-memory file handle and manifest only after the object generator '
        'finished, so an aborted update leaves the stored (valid) version readable for the fallback in the same run.'),
    decides='no code path discards a validated object, its siblings or its child CAs other than the documented filters',
    undecided='completeness of acceptance inside the rpki crate; the documented filters themselves (C08/C09)',
    trusted_base=['rustc MIR construction + callee resolution'],
    rules=['K4 outcome tables of 7 processors', 'K1 accept/reject vs returned task list', 'K3 payload vectors drained', 'K1 StoredPoint::_update keeps the old version until complete (shared with C04)', 'K4 unsafe-VRP policy table of process_origin: only `reject` removes (shared with C08)', 'K4 add_roa prefix-length filter (shared with C09)'],
)

CALLBACK = 'ProcessPubPoint::'


def rule_process_object(ctx):
    b = ctx.body('engine::PubPoint::process_object')
    paths = enumerate_paths(b, ctx.facts)
    ctx.floor('K4', 'paths of process_object', len(paths), 8)
    for p in paths:
        o = p.outcome
        if o == 'Result::Ok(const(1))':
            ok = True
        elif '@Break' in o:
            # error propagated from a per-type processor or the `want` callback
            ok = any(x in o for x in ('PubPoint::process_cer', 'PubPoint::process_roa', 'PubPoint::process_aspa',
                                      'PubPoint::process_gbr', 'ProcessPubPoint::want'))
        else:
            ok = False
        ctx.check(ok, 'K4', 'process_object:outcome:%s' % o.split('(')[0][:60] if ok else 'process_object:outcome:%s' % o[:80],
                  'path returns %s' % o,
                  'process_object can return `%s`: anything but Ok(true) makes the engine discard the whole publication point '
                  '(all valid siblings) because of one object' % o, loc=p.ret_site.loc() if p.ret_site else None)
    # dispatch: each object type reaches its processor
    for suffix, proc in [('.cer', 'process_cer'), ('.roa', 'process_roa'), ('.asa', 'process_aspa'), ('.gbr', 'process_gbr')]:
        hit = False
        for p in paths:
            for v, labs in p.cond_map().items():
                if ('"%s"' % suffix) in v and labs == {'true'} and p.called('engine::PubPoint::' + proc):
                    hit = True
        ctx.check(hit, 'K4', 'process_object:dispatch:%s' % suffix, '%s objects are handed to %s' % (suffix, proc),
                  '%s objects no longer reach %s' % (suffix, proc))


PROCS = [
    ('engine::PubPoint::process_roa', 'ProcessPubPoint::process_roa', ['Roa::decode', 'Roa::process']),
    ('engine::PubPoint::process_aspa', 'ProcessPubPoint::process_aspa', ['Aspa::decode', 'Aspa::process']),
    ('engine::PubPoint::process_gbr', 'ProcessPubPoint::process_gbr', ['SignedObject::decode', 'SignedObject::process']),
    ('engine::PubPoint::process_router_cert', 'ProcessPubPoint::process_router_cert', ['Cert::validate_router', 'ValidPointManifest::check_crl']),
    ('engine::PubPoint::process_ca_cer', 'ProcessPubPoint::process_ca', ['CaCert::check_loop', 'Cert::validate_ca', 'ValidPointManifest::check_crl', 'CaCert::chain']),
]


def rule_processors(ctx):
    for bpat, sink, guards in PROCS:
        b = ctx.body(bpat)
        paths = enumerate_paths(b, ctx.facts)
        n_pass = 0
        for p in paths:
            o = p.outcome
            ok = o == 'Result::Ok(tuple())' or ('@Break' in o and CALLBACK in o)
            ctx.check(ok, 'K4', '%s:outcome' % bpat, 'path returns %s' % o[:60],
                      '%s can return `%s`: an object-level fault must be logged and skipped (Ok(())), only processor '
                      'callbacks may abort the run' % (bpat, o), loc=p.ret_site.loc() if p.ret_site else None)
            # did all guards pass on this path?
            cm = p.cond_map()
            passed = 0
            for g in guards:
                for v, labs in cm.items():
                    if re.match(r'^call:' + re.escape(g) + r'(\(.*\))?$', v) and labs <= {'Ok', 'pass', 'Some'}:
                        passed += 1
                        break
            if passed == len(guards):
                n_pass += 1
                ctx.check(bool(p.called(sink)), 'K4', '%s:all-checks-pass=>sink' % bpat,
                          'when every check passes the payload is handed to %s' % sink,
                          'there is a path in %s on which every check passes but %s is not called: a valid object is dropped'
                          % (bpat, sink), loc=p.ret_site.loc() if p.ret_site else None)
        ctx.floor('K4', 'all-checks-pass paths in %s' % bpat, n_pass, 1)
    # process_ca_cer: the CaTask is pushed whenever the processor wants the CA
    b = ctx.body('engine::PubPoint::process_ca_cer')
    for p in enumerate_paths(b, ctx.facts):
        cm = p.cond_map()
        want = any(re.match(r'^call:ProcessPubPoint::process_ca(\(.*\))?@Continue\.0$', v) and labs == {'Some'} for v, labs in cm.items())
        if want:
            ctx.check(bool(p.called('Vec::push')), 'K4', 'process_ca_cer:wanted-ca=>task-pushed',
                      'a child CA the processor accepts is scheduled', 'a child CA accepted by the processor is not added to the task list')
    b = ctx.body('engine::PubPoint::process_cer')
    for p in enumerate_paths(b, ctx.facts):
        ok = p.outcome in ('Result::Ok(tuple())',) or p.outcome.startswith('call:PubPoint::process_ca_cer') or p.outcome.startswith('call:PubPoint::process_router_cert')
        ctx.check(ok, 'K4', 'process_cer:outcome', 'returns %s' % p.outcome[:50], 'process_cer returns `%s`' % p.outcome)


def user_local_of(body, op):
    """Follow a move/copy chain of single-def temporaries to a user-named local."""
    p = op.get('m') or op.get('c')
    for _ in range(8):
        if p is None or len(p) != 1:
            return None
        if body.locals[p[0]]['user']:
            return body.local_name(p[0])
        ds = body.whole_defs(p[0])
        if len(ds) != 1 or ds[0][1].get('s') != 'assign' or ds[0][1]['rv']['r'] != 'use':
            return None
        p = ds[0][1]['rv']['o'].get('m') or ds[0][1]['rv']['o'].get('c')
    return None


def rule_tasks_returned(ctx):
    for bpat, nested in [('engine::PubPoint::process_collected', True), ('engine::PubPoint::process_stored', False)]:
        b = ctx.body(bpat)
        acc = b.calls('engine::PubPoint::accept_point')
        rej = b.calls('engine::PubPoint::reject_point')
        ctx.floor('K1', 'accept_point call in ' + bpat, len(acc), 1)
        ctx.floor('K1', 'reject_point call in ' + bpat, len(rej), 1)
        n_tasks = 0
        for site, s in b.stmts():
            if s['s'] != 'assign' or s['rv']['r'] != 'agg' or s['rv'].get('variant') != 'Ok':
                continue
            if nested:
                # inner Ok(x) whose result flows into _0 = Ok(inner)
                if s['lhs'] == [0]:
                    continue
                ul = user_local_of(b, s['rv']['ops'][0])
                o = b.origin_of_operand(s['rv']['ops'][0])
            else:
                if s['lhs'] != [0]:
                    continue
                ul = user_local_of(b, s['rv']['ops'][0])
                o = b.origin_of_operand(s['rv']['ops'][0])
            d = describe(o)
            if ul is not None and 'task' in ul:
                n_tasks += 1
                ok = any(b.site_dominates(a, site) for a in acc)
                ctx.check(ok, 'K1', '%s:Ok(%s)<=accept_point' % (bpat, ul),
                          'the collected child-CA list is returned together with accept_point', 'child-CA list returned without accept_point', loc=site.loc())
            elif d.startswith('call:Vec::new'):
                ok = any(b.site_dominates(r, site) for r in rej)
                ctx.check(ok, 'K1', '%s:Ok(empty)<=reject_point' % bpat,
                          'an empty task list (%s) is returned only after reject_point' % site.loc(),
                          'an empty child-CA list is returned at %s without the point having been rejected: the accepted '
                          'point\'s child CAs (and all payload below them) are silently dropped' % site.loc(), loc=site.loc())
        ctx.floor('K1', 'returns of the collected child-CA list in ' + bpat, n_tasks, 1)
        # accept_point is reached when nothing failed: in process_stored it post-dominates the object loop's normal exit
        for a in acc:
            ctx.sample(dict(body=bpat, accept_point=a.loc(), reject_points=[r.loc() for r in rej]))
    # process_stored / closure: a `false` from process_object is the only object-driven reject
    b = ctx.body('engine::PubPoint::process')
    for p in enumerate_paths(b, ctx.facts):
        o = p.outcome
        ok = ('@Break' in o) or o.startswith('Result::Err(call:RunFailed::retry') or \
            o in ('Result::Ok(call:PubPoint::process_stored@Continue.0)', 'Result::Ok(call:PubPoint::process_collected@Continue.0@Ok.0)')
        ctx.check(ok, 'K4', 'PubPoint::process:outcome', 'returns %s' % o[:70],
                  'PubPoint::process returns `%s` instead of the task list produced by process_collected/process_stored' % o)


def rule_ca_task(ctx):
    b = ctx.body('engine::Run::process_ca_task')
    push = [s for s in b.calls('SegQueue::push')]
    rec = b.calls('engine::Run::process_ca_task')
    ctx.floor('K1', 'queue push in process_ca_task', len(push), 1)
    ctx.floor('K1', 'recursive processing in process_ca_task', len(rec), 1)
    e_def, sw = G('task.defer', field='defer', labels={'true'}).edges(b)
    e_ndef, _ = G('task.defer', field='defer', labels={'false'}).edges(b)
    ctx.floor('K1', 'switch on task.defer', len(sw), 1)
    for (s_, t_) in e_def:
        ctx.check(any(b.can_reach(t_, p.bb) for p in push), 'K1', 'process_ca_task:defer=>push', 'deferred tasks are queued', 'deferred tasks are not queued')
    for (s_, t_) in e_ndef:
        ctx.check(any(b.can_reach(t_, r.bb) for r in rec), 'K1', 'process_ca_task:!defer=>process', 'other tasks are processed at once', 'non-deferred tasks are not processed')
    for s in push:
        d = arg_desc(s, 1)
        ctx.check('Task::Ca' in d, 'prov', 'process_ca_task:push-arg', 'the queued item is Task::Ca(task)', 'queued item is `%s`' % d, loc=s.loc())


def rule_commit(ctx):
    b = ctx.body('<payload::validation::PubPointProcessor as engine::ProcessPubPoint>::commit')
    push = b.calls('SegQueue::push')
    ctx.floor('K3', 'push in commit', len(push), 1)
    e, sw = G('pub_point.is_empty', call='payload::validation::PubPoint::is_empty', labels={'false'}).edges(b)
    for s in push:
        p = b.path_avoiding(s.bb, avoid_edges=e)
        ctx.check(bool(sw) and p is None, 'K3', 'commit:push<=!is_empty', 'commit pushes the point iff it is non-empty', 'commit condition changed', loc=s.loc())
    # nothing else can prevent the push
    for p in enumerate_paths(b, ctx.facts):
        cm = p.cond_map()
        others = [v for v in cm if 'is_empty' not in v]
        ctx.check(not others, 'K3', 'commit:only-condition-is-emptiness', 'the only condition in commit is emptiness',
                  'commit branches on %s' % others)
    ie = ctx.body('payload::validation::PubPoint::is_empty')
    fields = set()
    for s in ie.calls(['Vec::is_empty']):
        fields.add(arg_path(s, 0).split('.')[-1])
    ctx.check(fields >= {'origins', 'router_keys', 'aspas'}, 'K3', 'PubPoint::is_empty:all-vectors',
              'is_empty looks at origins, router_keys and aspas', 'is_empty only looks at %s: a point holding other payload is dropped' % sorted(fields))
    sb = ctx.body('payload::validation::SnapshotBuilder::process_pub_point')
    drained = set()
    for s in sb.calls(['IntoIterator::into_iter', 'Iterator::for_each']):
        d = arg_desc(s, 0)
        for f in ('origins', 'router_keys', 'aspas'):
            if '.' + f in d:
                drained.add(f)
    ctx.check(drained >= {'origins', 'router_keys', 'aspas'}, 'K3', 'process_pub_point:drains-all',
              'process_pub_point iterates origins, router_keys and aspas', 'process_pub_point only iterates %s' % sorted(drained))
    cls = ctx.closures(sb)
    sinks = {'process_origin': False, 'process_key': False, 'process_aspa': False}
    for c in cls:
        for k in sinks:
            if c.calls('payload::validation::SnapshotBuilder::' + k):
                sinks[k] = True
    ctx.check(all(sinks.values()), 'K3', 'process_pub_point:item-sinks', 'each item is passed to its process_* method',
              'items not passed on: %s' % [k for k, v in sinks.items() if not v])
    who_calls(ctx, 'K3', 'payload::validation::SnapshotBuilder::process_pub_point', ['payload::validation::ValidationReport::into_snapshot'])


from props.C04 import rule_update_body  # noqa: E402  (aborted update must leave the stored version usable)

from props.C09 import rule_add_roa  # noqa: E402  (the documented prefix-length filter removes exactly what it documents)

from props.C08 import rule_policy  # noqa: E402  (of the unsafe-VRP policies only `reject` may remove a valid VRP)

RULES = [rule_process_object, rule_processors, rule_tasks_returned, rule_ca_task, rule_commit, rule_update_body, rule_add_roa, rule_policy]
