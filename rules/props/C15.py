"""C15 Responses pair each serial with its own data (K5 atomic set, K3, K1)."""
from lib.facts import norm, path_matches, origin_is_call, Site
from lib.rules import strip_origin, arg_path, who_calls, field_writes, writers_of_field, fmt_path, edges_from_call

from lib.rules import owned_by  # noqa: E402

META = dict(
    level='other',
    explanation=(
        'Atomic-set rule (K5) for A = {PayloadHistory.deltas (defines the serial), PayloadHistory.current (the data)}: '
        '(W) all writes to members of A in the whole crate (assignments, &mut borrows, push_delta calls, resolved by '
        'owning ADT in MIR) happen in SharedHistory::update, through ONE write-guard acquisition whose guard local is '
        'the receiver of every such write, so no reader can see the new data with the old serial or vice versa; '
        '(R) every body that reads both a serial-kind accessor (serial, session_and_serial, delta_since) and a data-kind '
        'accessor (current, delta_since, field current) of the history does so through ONE SharedHistory::read guard; '
        '(K3) SharedHistory::write is private and called from three bodies only; (K1 readiness) `current` is only '
        'ever assigned Some(_), PayloadSource::ready is is_active under the lock, and every HTTP data handler returns '
        'its data only on the Some edge of current().'),
    decides='atomic publication of (serial, data) and atomic reading, for all interleavings; readiness gate',
    undecided='hyper/tokio scheduling; rpki::rtr::server calling ready() before serving (trusted, read)',
    trusted_base=['rustc MIR construction + callee resolution', 'std RwLock semantics',
                  'rpki::rtr::server::Connection checks ready() before serial/reset queries'],
    rules=['K5 single write guard for {deltas,current}', 'K5 single read guard per pairing body', 'K3 write() callers/visibility',
           'K1 readiness gate'],
)

HIST = 'payload::history::PayloadHistory'
SERIAL_KIND = ['PayloadHistory::serial', 'PayloadHistory::session_and_serial', 'PayloadHistory::delta_since']
DATA_KIND = ['PayloadHistory::current', 'PayloadHistory::delta_since']
A_FIELDS = {'deltas', 'current'}


def guard_of(body, origin):
    """The SharedHistory::read/write (or RwLock) acquisition call an access path hangs off."""
    o = origin
    for _ in range(40):
        if o is None:
            return None
        if o.kind in ('ref', 'cast'):
            o = o.base
            continue
        if o.kind == 'place':
            o = o.base
            continue
        if o.kind == 'call':
            nm = o.callee
            if nm.endswith('SharedHistory::read') or nm.endswith('SharedHistory::write') \
                    or nm.endswith('RwLock::read') or nm.endswith('RwLock::write'):
                return o.site
            if o.args and (nm.endswith('::unwrap') or nm.endswith('::expect') or 'Deref' in nm):
                o = o.args[0]
                continue
            return None
        if o.kind == 'multi':
            gs = set(filter(None, (guard_of(body, a) for a in o.alts)))
            return list(gs)[0] if len(gs) == 1 else None
        return None
    return None


def rule_single_write_scope(ctx):
    upd = ctx.body('payload::history::SharedHistory::update')
    # crate-wide: who writes members of A
    ws = [w for w in writers_of_field(ctx, HIST) if w[3] in A_FIELDS]
    ctx.floor('K5', 'write accesses to PayloadHistory.{deltas,current}', len(ws), 3)
    allowed = ['payload::history::SharedHistory::update', 'payload::history::PayloadHistory::push_delta']
    for b, site, how, f in ws:
        ok, who = owned_by(ctx, b.nid, allowed)
        ctx.check(ok, 'K5', 'A-writer:%s<-%s' % (f, who if ok and who != b.nid.split('::{')[0] else b.nid),
                  'PayloadHistory.%s written (%s) in %s' % (f, how, b.nid),
                  'PayloadHistory.%s is written (%s) in %s: the atomic set {deltas,current} must only be written inside '
                  'SharedHistory::update' % (f, how, b.nid), loc=site.loc())
    who_calls(ctx, 'K5', 'payload::history::PayloadHistory::push_delta', ['payload::history::SharedHistory::update'])
    # inside update: every A-write hangs off the same write guard
    events = []
    for site, how, adt, f, place in field_writes(upd):
        if adt.endswith('PayloadHistory') and f in A_FIELDS:
            o = upd.origin_of_place(place[:1])
            events.append((site, 'write ' + f, guard_of(upd, o)))
    for s in upd.calls('PayloadHistory::push_delta'):
        events.append((s, 'push_delta', guard_of(upd, upd.origin_of_operand(s.term['args'][0]))))
    ctx.floor('K5', 'A-write events in SharedHistory::update', len(events), 2)
    guards = set(g for _s, _w, g in events)
    kinds = set(w for _s, w, _g in events)
    ctx.check('push_delta' in kinds and 'write current' in kinds, 'K5', 'update:writes-both',
              'SharedHistory::update writes both the delta queue and the snapshot',
              'SharedHistory::update no longer writes both deltas and current (events %s)' % sorted(kinds))
    ok = len(guards) == 1 and None not in guards
    ctx.check(ok, 'K5', 'update:single-write-guard',
              'all writes to {deltas,current} in SharedHistory::update go through the single write guard acquired at %s'
              % ([g.loc() for g in guards if g] or '?'),
              'writes to the atomic set {deltas,current} are spread over %d write-lock acquisitions (%s): between them a '
              'reader sees the new snapshot with the old serial (or vice versa)'
              % (len(guards), [(w, g.loc() if g else 'unresolved') for _s, w, g in events]),
              loc=upd.file + ':%d' % upd.line)
    # the guard must not be dropped between the first and last A-write
    if ok:
        g = list(guards)[0]
        gl = g.term['dest'][0]
        # follow moves of the guard into a user local
        locals_ = {gl}
        for site, s in upd.stmts():
            if s['s'] == 'assign' and s['rv']['r'] == 'use':
                p = s['rv']['o'].get('m')
                if p and len(p) == 1 and p[0] in locals_ and len(s['lhs']) == 1:
                    locals_.add(s['lhs'][0])
        drops = [i for i, blk in enumerate(upd.blocks) if blk['term']['t'] == 'drop' and not blk['cleanup']
                 and blk['term']['p'][0] in locals_ and len(blk['term']['p']) == 1]
        evs = [s for s, _w, _g in events]
        bad = []
        for d in drops:
            before = [e for e in evs if upd.can_reach(e.bb, d) and e.bb != d]
            after = [e for e in evs if upd.can_reach(d, e.bb) and e.bb != d]
            if before and after:
                bad.append(d)
        ctx.check(not bad, 'K5', 'update:guard-held-across-writes',
                  'the write guard is not released between the writes', 'write guard dropped at bb%s between A-writes' % bad)
    for s, w, g in events:
        ctx.sample(dict(event=w, at=s.loc(), guard=g.loc() if g else None))


def rule_single_read_scope(ctx):
    n_pair = 0
    for raw, line in ctx.facts._lines.items():
        if 'PayloadHistory' not in line:
            continue
        b = ctx.facts.body_raw(raw)
        if b.nid.startswith('payload::history::PayloadHistory::'):
            continue  # accessor bodies themselves: no lock in sight, `self` is already guarded
        ser = b.calls(SERIAL_KIND)
        dat = b.calls(DATA_KIND)
        # direct field reads of current/deltas through a guard
        fld = []
        for site, st in b.stmts():
            if st['s'] == 'assign' and st['rv']['r'] == 'ref' and not st['rv'].get('mut'):
                pl, po = st['rv']['p'], st['rv'].get('po') or []
                for i, ow in enumerate(po):
                    if ow and norm(ow).endswith('PayloadHistory') and pl[i + 1][1:] in A_FIELDS:
                        fld.append((site, pl))
        if not ser or not (dat or fld):
            continue
        if b.nid.endswith('SharedHistory::update'):
            # single updater thread: reads (current, serial) to build the delta, then publishes under the write lock
            gs = set(guard_of(b, b.origin_of_operand(s.term['args'][0])) for s in ser + dat)
            ctx.check(len(gs) == 1 and None not in gs, 'K5', 'update:pre-read-single-guard',
                      'SharedHistory::update reads (current, serial) under one read guard',
                      'SharedHistory::update reads current and serial under different guards')
            continue
        n_pair += 1
        ctx.bodies.add(b.nid)
        gs = {}
        for s in ser + dat:
            g = guard_of(b, b.origin_of_operand(s.term['args'][0]))
            gs.setdefault(g.loc() if g else None, []).append(s.callee.split('::')[-1] + '@' + s.loc())
        for site, pl in fld:
            g = guard_of(b, b.origin_of_place(pl[:1]))
            gs.setdefault(g.loc() if g else None, []).append('field' + pl[-1] + '@' + site.loc())
        ok = len(gs) == 1 and None not in gs
        ctx.check(ok, 'K5', 'pairing-reader:%s' % b.nid,
                  '%s reads serial-kind and data-kind values through one read guard (%s)' % (b.nid, list(gs)[0]),
                  '%s pairs a serial with data read under different (or unresolved) lock acquisitions: %s' % (b.nid, gs),
                  loc=b.file + ':%d' % b.line)
        ctx.sample(dict(reader=b.nid, guards=gs))
    ctx.floor('K5', 'bodies pairing serial and data', n_pair, 4)


def rule_write_private(ctx):
    who_calls(ctx, 'K3', 'payload::history::SharedHistory::write',
              ['payload::history::SharedHistory::update', 'payload::history::SharedHistory::mark_update_start',
               'payload::history::SharedHistory::mark_update_done'], floor=3)
    f = ctx.facts.fns.get('payload::history::SharedHistory::write')
    ctx.check(f is not None and f['vis'].startswith('Restricted') and 'payload::history' in f['vis'], 'K3',
              'SharedHistory::write:private',
              'SharedHistory::write is private to payload::history (%s)' % (f and f['vis']),
              'SharedHistory::write is visible outside payload::history (%s): mutable access to the shared history leaks'
              % (f and f['vis']))
    adt = ctx.facts.adts.get('payload::history::PayloadHistory')
    if adt is None:
        ctx.bad('K3', 'anchor:PayloadHistory', 'ADT payload::history::PayloadHistory not found')
        return
    for fld in adt['variants'][0]['fields']:
        if fld['name'] in A_FIELDS:
            ctx.check(fld['vis'].startswith('Restricted') and 'payload::history' in fld['vis'], 'K3',
                      'field-private:%s' % fld['name'], 'PayloadHistory.%s is private to the module' % fld['name'],
                      'PayloadHistory.%s is visible outside payload::history (%s)' % (fld['name'], fld['vis']))


def rule_readiness(ctx):
    # current only ever becomes Some(_)
    n = 0
    for b, site, how, f in writers_of_field(ctx, HIST):
        if f != 'current' or how != 'assign':
            continue
        n += 1
        rv = site.stmt['rv']
        o = b.origin_of_operand(rv['o']) if rv['r'] == 'use' else None
        is_some = (rv['r'] == 'agg' and rv.get('variant') == 'Some') or \
                  (o is not None and o.kind == 'agg' and o.what.endswith('Option::Some'))
        ctx.check(is_some, 'K1', 'current-only-Some:%s' % b.nid,
                  'PayloadHistory.current is assigned Some(_) at %s' % site.loc(),
                  'PayloadHistory.current is assigned something other than Some(_) at %s: readiness could be revoked'
                  % site.loc(), loc=site.loc())
    ctx.floor('K1', 'assignments to PayloadHistory.current', n, 1)
    rb = ctx.body('<payload::history::SharedHistory as rpki::rtr::server::PayloadSource>::ready')
    ctx.check(bool(rb.calls('PayloadHistory::is_active')) and bool(rb.calls('SharedHistory::read')), 'K1', 'ready=is_active',
              'PayloadSource::ready returns is_active() under the read lock', 'PayloadSource::ready does not consult is_active()')
    ia = ctx.body('payload::history::PayloadHistory::is_active')
    ok = any('current' in arg_path(s, 0) for s in ia.calls('Option::is_some'))
    ctx.check(ok, 'K1', 'is_active=current.is_some', 'is_active is current.is_some()', 'is_active is not current.is_some()')
    # HTTP handlers: data only on the Some edge of current()
    handlers = [
        ('http::payload::State::handle_get_or_head', ['output::Output::stream']),
        ('http::delta::handle_get_or_head', ['http::delta::handle_reset']),
        ('http::validity::handle_validity_path', ['http::validity::validity']),
        ('http::validity::handle_validity_query', ['http::validity::validity']),
    ]
    for hb, sinks in handlers:
        b = ctx.body(hb)
        pass_edges, other, sw = edges_from_call(b, 'PayloadHistory::current', {'Some', 'pass'})
        # tuple-matched forms: (Some(snapshot), ...) switch on a field of a tuple built from current()
        if not sw:
            for sbb in b.switches():
                o, edges = b.switch_edges(sbb)
                if any(c.callee.endswith('PayloadHistory::current') for c in o.calls()) or \
                        'PayloadHistory::current' in o.path():
                    sw.append(sbb)
                    for tb, labs in edges.items():
                        if labs == {'Some'}:
                            pass_edges.append((sbb, tb))
        for sink in sinks:
            for s in b.calls(sink):
                ctx.call_sites += 1
                p = b.path_avoiding(s.bb, avoid_edges=pass_edges)
                ctx.check(bool(pass_edges) and p is None, 'K1', '%s:%s<=Some(current)' % (hb, sink.split('::')[-1]),
                          '%s in %s is reachable only when current() is Some' % (sink, hb),
                          '%s in %s is reachable although no validated data set exists yet' % (sink, hb),
                          loc=s.loc(), path=fmt_path(b, p))


def rule_json_delta_gate(ctx):
    """/json-delta: a delta, a reset and the 200 answer to HEAD are produced only for an active history."""
    from lib.rules import G, AnyG
    b = ctx.body('http::delta::handle_get_or_head')
    gate = AnyG('history is active', [G('is_active', call='PayloadHistory::is_active', labels={'true'}),
                                      G('current is Some', call='PayloadHistory::current', labels={'Some', 'pass'})])
    e, sw = gate.edges(b)
    ctx.floor('K1', 'readiness test in the /json-delta handler', len(sw), 1)
    sinks = b.calls(['http::delta::handle_delta', 'http::delta::handle_reset', 'http::response::ResponseBuilder::ok'])
    ctx.floor('K1', 'success responses of the /json-delta handler', len(sinks), 3)
    for s_ in sinks:
        pth = b.path_avoiding(s_.bb, avoid_edges=e)
        ctx.check(bool(e) and pth is None, 'K1', 'json-delta:%s<=history-active' % s_.callee.split('::')[-1],
                  '%s is reachable only once a validated data set exists' % s_.callee.split('::')[-1],
                  'the /json-delta handler can answer with %s before the first validation has completed: a client gets an (empty) '
                  'change set or a 200 for data that does not exist yet, tagged with the initial serial' % s_.callee.split('::')[-1],
                  loc=s_.loc(), path=fmt_path(b, pth))


RULES = [rule_json_delta_gate, rule_single_write_scope, rule_single_read_scope, rule_write_private, rule_readiness]
