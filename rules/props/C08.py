"""C08 Unsafe-VRP policy filters exactly overlapping VRPs (K4, K3)."""
import re
from lib.rules import G, arg_desc, who_calls, arg_path, agg_sites
from lib.tables import enumerate_paths

META = dict(
    level='other',
    explanation=(
        'K4 policy table over payload::validation::SnapshotBuilder::process_origin: all paths are enumerated; when '
        'keep_prefix() is false, policy Reject never reaches the HashMap::entry insertion (the VRP is dropped) while Warn and '
        'Accept reach it exactly as when keep_prefix() is true; when keep_prefix() is true the policy is not consulted. '
        'K4 shape rule on RejectedResources::keep_prefix: the result is !IpBlocks::intersects_block(self.v4|v6, prefix) with '
        'the family chosen by prefix.is_v4() and the block built from the same prefix (the overlap arithmetic itself is the '
        'rpki crate\'s). K3 provenance of the rejected set: RejectedResourcesBuilder::extend_from_cert is called only from '
        'cancel(), cancel only from engine::PubPoint::reject_point; it pushes (true, v4 block)/(false, v6 block) filtered by '
        '!is_slash_zero(); finalize() routes by that flag; SnapshotBuilder receives exactly that finalized set and the '
        'configured policy.'),
    decides='the policy switch and the provenance/routing of the rejected resource set',
    undecided='interval arithmetic of IpBlocks::intersects_block (rpki crate)',
    trusted_base=['rustc MIR construction + callee resolution', 'rpki IpBlocks::intersects_block'],
    rules=['K4 process_origin policy table', 'K4 keep_prefix shape', 'K3 rejected-set provenance'],
)


def rule_policy(ctx):
    b = ctx.body('payload::validation::SnapshotBuilder::process_origin')
    paths = enumerate_paths(b, ctx.facts)
    ctx.floor('K4', 'paths of process_origin', len(paths), 9)
    rows = {}
    for p in paths:
        cm = p.cond_map()
        keep = pol = drop = None
        for v, labs in cm.items():
            if v.startswith('call:RejectedResources::keep_prefix') and len(labs) == 1:
                keep = list(labs)[0]
            elif v == 'self.unsafe_vrps':
                pol = labs
            elif v.startswith('call:LocalExceptions::drop_origin') and len(labs) == 1:
                drop = list(labs)[0]
        inserted = bool(p.called('HashMap::entry'))
        if keep is None:
            ctx.bad('K4', 'process_origin:path-without-keep_prefix', 'a path of process_origin does not test keep_prefix')
            continue
        if keep == 'true':
            ctx.check(pol is None, 'K4', 'process_origin:safe=>policy-not-consulted', 'policy only matters for unsafe VRPs',
                      'the unsafe-VRP policy is consulted for a VRP that does not overlap rejected resources')
            exp = (drop == 'false')
            ctx.check(inserted == exp, 'K4', 'process_origin:safe,drop=%s' % drop, 'inserted=%s' % inserted,
                      'a safe VRP with SLURM-filter=%s has inserted=%s' % (drop, inserted))
        else:
            if pol is None:
                ctx.bad('K4', 'process_origin:unsafe-without-policy', 'an overlapping VRP is handled without consulting the policy')
                continue
            for pl in pol:
                if pl == 'Reject':
                    ctx.check(not inserted, 'K4', 'process_origin:unsafe,Reject=>dropped',
                              'policy reject drops an overlapping VRP', 'policy reject still inserts an overlapping VRP',
                              loc=p.ret_site.loc() if p.ret_site else None)
                else:
                    exp = (drop == 'false')
                    if drop is None:
                        ctx.bad('K4', 'process_origin:unsafe,%s=>continues' % pl,
                                'under policy %s an overlapping VRP leaves process_origin before the SLURM filter / insertion is reached '
                                '(inserted=%s): warn/accept must not remove anything' % (pl, inserted),
                                loc=p.ret_site.loc() if p.ret_site else None)
                        continue
                    ctx.check(inserted == exp, 'K4', 'process_origin:unsafe,%s,drop=%s' % (pl, drop),
                              'policy %s keeps the VRP (inserted=%s)' % (pl, inserted),
                              'policy %s removes an overlapping VRP (SLURM-filter=%s, inserted=%s): with warn/accept the filter '
                              'must remove nothing' % (pl, drop, inserted), loc=p.ret_site.loc() if p.ret_site else None)
                rows[(keep, pl, drop)] = inserted
    for pl in ('Reject', 'Warn', 'Accept'):
        ctx.check(any(k[1] == pl for k in rows), 'K4', 'process_origin:row-present:%s' % pl, 'policy %s has a row' % pl,
                  'no path handles policy %s for an overlapping VRP' % pl)
    ctx.extra['table'] = [dict(keep=k[0], policy=k[1], slurm_drop=k[2], inserted=v) for k, v in sorted(rows.items(), key=str)]
    for s in b.calls('RejectedResources::keep_prefix'):
        d = arg_desc(s, 1)
        ctx.check('origin' in d and 'prefix' in d, 'prov', 'process_origin:keep_prefix:arg', 'overlap is tested for this VRP\'s prefix',
                  'keep_prefix is asked about `%s`' % d, loc=s.loc())


def rule_keep_prefix(ctx):
    b = ctx.body('payload::validation::RejectedResources::keep_prefix')
    paths = enumerate_paths(b, ctx.facts)
    want = {'true': 'self.v4', 'false': 'self.v6'}
    seen = set()
    for p in paths:
        cm = p.cond_map()
        fam = None
        for v, labs in cm.items():
            if v.startswith('call:Prefix::is_v4(prefix)') and len(labs) == 1:
                fam = list(labs)[0]
        m = re.match(r'^Not\(call:IpBlocks::intersects_block\((self\.v[46]),call:Prefix::new\(call:Prefix::addr\(prefix\),call:Prefix::len\(prefix\)\)\)\)$', p.outcome or '')
        ok = fam in want and m is not None and m.group(1) == want[fam] and len(cm) == 1
        seen.add(fam)
        ctx.check(ok, 'K4', 'keep_prefix:family=%s' % fam,
                  'is_v4=%s -> %s' % (fam, p.outcome),
                  'keep_prefix is no longer `!%s.intersects_block(prefix)` for is_v4=%s (got `%s` under %s): the overlap test '
                  'is not delegated to IpBlocks::intersects_block on the matching address family'
                  % (want.get(fam, '?'), fam, p.outcome, {k: sorted(v) for k, v in cm.items()}),
                  loc=p.ret_site.loc() if p.ret_site else None)
    ctx.check(seen == {'true', 'false'}, 'K4', 'keep_prefix:both-families', 'both families handled', 'families seen: %s' % seen)


def rule_provenance(ctx):
    who_calls(ctx, 'K3', 'payload::validation::RejectedResourcesBuilder::extend_from_cert',
              ['<payload::validation::PubPointProcessor as engine::ProcessPubPoint>::cancel'])
    who_calls(ctx, 'K3', 'engine::ProcessPubPoint::cancel', ['engine::PubPoint::reject_point'])
    # recording is unconditional: every path through cancel / reject_point reaches the recording call
    for bn, callee in (('<payload::validation::PubPointProcessor as engine::ProcessPubPoint>::cancel',
                        'payload::validation::RejectedResourcesBuilder::extend_from_cert'),
                       ('engine::PubPoint::reject_point', 'engine::ProcessPubPoint::cancel')):
        cb = ctx.body(bn)
        sites = cb.calls(callee)
        nodes = {x.bb for x in sites}
        free = [r for r in cb.returns() if cb.path_avoiding(r.bb, avoid_nodes=nodes) is not None]
        ctx.check(bool(sites) and not free, 'K3', 'rejected-recorded-on-every-path:%s' % bn.split('::')[-1].rstrip('>'),
                  'every path through %s calls %s (the resources of a rejected CA are always recorded)' % (bn.split('::')[-1], callee.split('::')[-1]),
                  '%s can return without calling %s: the resources of a rejected CA are not marked unsafe on that path (e.g. only '
                  'when logging is enabled), so overlapping VRPs elsewhere are kept under unsafe-vrps=reject' % (bn, callee),
                  loc='%s:%d' % (cb.file, cb.line))
    b = ctx.body('payload::validation::RejectedResourcesBuilder::extend_from_cert')
    pushes = [s for s in b.calls('SegQueue::push') if arg_path(s, 0).endswith('.addrs')]
    ctx.floor('K3', 'pushes to addrs', len(pushes), 2)
    fams = {}
    for s in pushes:
        d = arg_desc(s, 1)
        m = re.match(r'^tuple\(const\((\d)\),(.*)\)$', d)
        if m:
            fams[m.group(1)] = m.group(2)
    ctx.check('v4_resources' in fams.get('1', '') and 'v6_resources' in fams.get('0', ''), 'K3', 'extend_from_cert:family-flags',
              '(true, v4 block) and (false, v6 block) are pushed', 'family flags / sources: %s' % fams)
    cls = ctx.closures(b)
    n = 0
    for c in cls:
        for p in enumerate_paths(c, ctx.facts):
            if 'is_slash_zero' in (p.outcome or ''):
                n += 1
                ctx.check(p.outcome.startswith('Not(call:IpBlock::is_slash_zero'), 'K3', 'extend_from_cert:filter:%s' % c.nid.split('::')[-1],
                          'only whole-family /0 blocks are excluded', 'filter closure returns %s' % p.outcome)
    # the same exclusion written as `if block.is_slash_zero() { continue }` inside the loop
    e_sz, sw_sz = G('not /0', call='re:IpBlock::is_slash_zero$', labels={'false'}).edges(b)
    for s_ in pushes:
        if sw_sz and e_sz and b.path_avoiding(s_.bb, avoid_edges=e_sz) is None:
            n += 1
            ctx.ok('K3', 'extend_from_cert:guard:%s' % arg_desc(s_, 1)[:30], 'a block is recorded unless it is the whole-family /0 block', loc=s_.loc())
    ctx.floor('K3', 'is_slash_zero filters', n, 2)
    f = ctx.body('payload::validation::RejectedResourcesBuilder::finalize')
    ok = True
    n = 0
    for s in f.calls('IpBlocksBuilder::push'):
        from lib.rules import user_local_of
        recv = user_local_of(f, s.term['args'][0]) or arg_path(s, 0)
        want = 'true' if recv == 'v4' else ('false' if recv == 'v6' else None)
        # the guarding switch is on the popped family flag
        good = False
        for sbb in f.switches():
            o, edges = f.switch_edges(sbb)
            if 'pop' not in o.path() and 'is_v4' not in o.path():
                continue
            pe = [(sbb, tb) for tb, labs in edges.items() if labs == {want}]
            if pe and f.path_avoiding(s.bb, avoid_edges=pe) is None:
                good = True
        n += 1
        ctx.check(good and want is not None, 'K3', 'finalize:push(%s)<=flag=%s' % (recv, want),
                  'blocks flagged is_v4=%s go to the %s set' % (want, recv), 'routing of rejected blocks into `%s` is not by the family flag' % recv, loc=s.loc())
    ctx.floor('K3', 'IpBlocksBuilder::push sites in finalize', n, 2)
    lits = agg_sites(f, 'payload::validation::RejectedResources')
    from lib.tables import describe
    for l in lits:
        rv = l.stmt['rv']
        def src(fld):
            o = f.origin_of_operand(rv['ops'][rv['names'].index(fld)])
            if o.kind == 'call' and o.callee.endswith('IpBlocksBuilder::finalize'):
                from lib.rules import user_local_of
                return user_local_of(f, o.term['args'][0]) or '?'
            return describe(o)
        d4, d6 = src('v4'), src('v6')
        ctx.check(d4 == 'v4' and d6 == 'v6', 'K3', 'finalize:v4/v6 fields', 'v4: %s.finalize(), v6: %s.finalize()' % (d4, d6),
                  'RejectedResources { v4: %s.finalize(), v6: %s.finalize() }' % (d4, d6))
    ins = ctx.body('payload::validation::ValidationReport::into_snapshot')
    for s in ins.calls('payload::validation::SnapshotBuilder::new'):
        d0, d1 = arg_desc(s, 0), arg_desc(s, 1)
        ctx.check('finalize' in d0 and 'rejected' in d0 and 'unsafe_vrps' in d1, 'K3', 'into_snapshot:builder-args',
                  'SnapshotBuilder gets report.rejected.finalize() and the configured policy', 'SnapshotBuilder::new(%s, %s)' % (d0, d1), loc=s.loc())


RULES = [rule_policy, rule_keep_prefix, rule_provenance]
