"""C40 Cleanup keeps everything still needed (K1, K2, monotone keep flag)."""
import re
from lib.facts import Site
from lib.rules import G, require_guards, arg_desc, who_calls, arg_path, const_bool_assigns, fmt_path, user_local_of
from lib.tables import enumerate_paths, describe

META = dict(
    level='other',
    explanation=(
        'K1/K2 in engine::Run::cleanup: store.cleanup and collector.cleanup are reachable only on the false edge of '
        'dirty_repository, and the store is cleaned first (it fills the retain set the collectors then honour). K1 in '
        'ValidationReport::process (and every other caller): Run::cleanup is reachable only after Run::process returned Ok. '
        'store::Run::cleanup_points: the closure keeps a file (Ok(true)) exactly when StoredPoint::retain is true and on that '
        'path registers the point\'s RRDP repository or rsync module with the collector retain set; StoredPoint::retain is '
        'manifest.not_after > now for points with a manifest. cleanup_dir_tree::recurse: the `keep` result is a sticky OR '
        '(initialised false, only ever assigned the constant true, once for any kept file or kept sub-directory), '
        'remove_file happens only on the false edge of the keep-predicate for that file and remove_dir_all only on the false '
        'edge of the recursive result for that directory. Both collectors add everything touched in this run (`updated`) to '
        'the retain set before they walk their directories.'),
    decides='no deletion on dirty/failed runs; kept points keep their directories and their collector copies',
    undecided='file-system behaviour of remove_dir_all; contents of the collectors\' own per-repository keep decisions',
    trusted_base=['rustc MIR construction + callee resolution'],
    rules=['K1 dirty / success gates', 'K2 store before collector', 'K4 keep closure', 'monotone keep flag', 'K2 updated -> retain first', 'K4 StoredPoint::retain truth table', 'K4 cleanup_ta truth table', 'K3 retain keys canonical'],
)


def rule_gates(ctx):
    b = ctx.body('engine::Run::cleanup')
    sc = b.calls('store::Run::cleanup')
    cc = b.calls('collector::base::Run::cleanup')
    ctx.floor('K1', 'store cleanup call', len(sc), 1)
    ctx.floor('K1', 'collector cleanup call', len(cc), 1)
    require_guards(ctx, 'K1', b, sc + cc, [G('!dirty_repository', field='dirty_repository', labels={'false'})], 'with the dirty option nothing is removed')
    for c in cc:
        ctx.check(any(b.site_dominates(s, c) for s in sc), 'K2', 'Run::cleanup:store<collector', 'the store is cleaned (and fills `retain`) before the collector',
                  'collector cleanup can run before the store registered what must be retained', loc=c.loc())
        ctx.check(all(arg_desc(s, 1) == arg_desc(c, 1) for s in sc), 'K2', 'Run::cleanup:same-retain-set', 'both use the same retain set', 'different retain sets')
    callers = ctx.facts.callers('engine::Run::cleanup')
    ctx.floor('K1', 'callers of Run::cleanup', len(callers), 1)
    for s in callers:
        bb = s.body
        e, sw = G('Ok(run.process())', call='engine::Run::process', labels={'Ok', 'pass'}).edges(bb)
        p = bb.path_avoiding(s.bb, avoid_edges=e)
        ctx.check(bool(sw) and p is None, 'K1', '%s:cleanup<=Ok(process)' % bb.nid, 'cleanup only after a successful run',
                  'Run::cleanup in %s can be reached although Run::process failed' % bb.nid, loc=s.loc(), path=fmt_path(bb, p))


def rule_points(ctx):
    b = ctx.body('store::Run::cleanup_points')
    cls = [c for c in ctx.closures(b) if c.calls('store::StoredPoint::load_quietly')]
    ctx.floor('K4', 'keep closure of cleanup_points', len(cls), 1)
    for c in cls:
        n_keep = 0
        for p in enumerate_paths(c, ctx.facts):
            cm = p.cond_map()
            ret = [labs for v, labs in cm.items() if v.startswith('call:StoredPoint::retain')]
            keep = p.outcome == 'Result::Ok(const(1))'
            if keep:
                n_keep += 1
                reg = p.called('collector::base::Cleanup::add_rrdp_repository') or p.called('collector::base::Cleanup::add_rsync_module')
                ctx.check(bool(ret) and ret[0] == {'true'} and bool(reg), 'K4', 'cleanup_points:keep=>retain&register',
                          'a kept point satisfied retain() and registered its repository/module', 'a point is kept without retain()/registration')
            else:
                if ret and ret[0] == {'true'}:
                    ctx.bad('K4', 'cleanup_points:retain=>keep', 'a point for which retain() is true is not kept (outcome %s)' % p.outcome)
        ctx.floor('K4', 'keep paths', n_keep, 2)
        for s in c.calls('store::StoredPoint::retain'):
            ctx.check(arg_desc(s, 1).endswith('.started'), 'K4', 'cleanup_points:retain-arg', 'retain(run start time)', 'retain(%s)' % arg_desc(s, 1))
    rule_retain(ctx)


def rule_retain(ctx):
    """StoredPoint::retain: a point that holds a manifest is kept exactly while the manifest's certificate has not
    expired - nothing else (update status, time of the run) may decide for such a point. Shared with C05: the stored
    manifest is the reference the rollback check compares against."""
    r = ctx.body('store::StoredPoint::retain')
    n = 0
    for p in enumerate_paths(r, ctx.facts):
        if p.kind != 'return':
            continue
        cm = p.cond_map()
        m = [labs for v, labs in cm.items() if v.endswith('self.manifest)') or v == 'call:Option::as_ref(self.manifest)' or 'self.manifest' in v and not v.startswith('cmp(')]
        expiry = expiry_verdict(p)
        if m and m[0] == {'Some'}:
            n += 1
            ctx.check(expiry, 'K4', 'StoredPoint::retain:manifest=>not_after>now', 'a stored point is retained while its manifest certificate has not expired',
                      'retain() for a point with a manifest is `%s`' % p.outcome)
            other = sorted(v for v in cm if 'self.manifest' not in v and 'not_after' not in v)
            ctx.check(not other, 'K4', 'StoredPoint::retain:manifest=>nothing-else-decides', 'only the expiry decides for a point with a manifest',
                      'retain() for a point with a manifest also depends on %s' % other)
        elif not expiry and not (m and m[0] == {'None'}):
            ctx.bad('K4', 'StoredPoint::retain:verdict-without-manifest-test',
                    'retain() returns `%s` on a path that has not established that the point has no manifest (conditions: %s): '
                    'a point with an unexpired manifest may be dropped' % (p.outcome, sorted(cm)))
    ctx.floor('K4', 'retain paths with a manifest', n, 1)


def _expiry(cm):
    """-> 'valid' | 'expired' | None from a comparison of the certificate's notAfter with now"""
    for v, labs in cm.items():
        m = re.match(r'^cmp\((.*)\)$', v)
        if not m or 'not_after' not in v or 'Time::now' not in v:
            continue
        now_first = v.index('Time::now') < v.index('not_after')
        valid = {'Less'} if now_first else {'Greater'}
        if set(labs) == valid:
            return 'valid'
        if not (set(labs) & valid):
            return 'expired'
        return 'mixed'
    return None


def _is_expiry_expr(o):
    return bool(re.search(r'not_after', o)) and 'Time::now' in o and (o.startswith('Gt(') or 'PartialOrd>::gt' in o or 'gt(' in o)


def expiry_verdict(p, ok_wrap=False):
    """Does the path's result equal `notAfter > now`? Either the result IS that comparison, or it is the constant the
    comparison tested on the path implies (`if not_after <= now { return false } true`)."""
    o = p.outcome or ''
    if ok_wrap:
        m = re.match(r'^Result::Ok\((.*)\)$', o)
        if not m:
            return False
        o = m.group(1)
    if _is_expiry_expr(o):
        return True
    e = _expiry(p.cond_map())
    return (o == 'const(1)' and e == 'valid') or (o == 'const(0)' and e == 'expired')


def rule_ta_cleanup(ctx):
    """store::Run::cleanup_ta: a stored trust-anchor certificate is deleted only if it does not decode or has expired;
    a decodable, unexpired copy is kept (it is what a later run falls back to when the download fails: shared with C10)."""
    b = ctx.body('store::Run::cleanup_ta')
    cls = [c for c in ctx.closures(b) if c.calls('re:Cert::decode$')]
    ctx.floor('K4', 'keep closure of cleanup_ta', len(cls), 1)
    for c in cls:
        ctx.bodies.add(c.nid)
        n_keep = n_del = 0
        for p in enumerate_paths(c, ctx.facts):
            if p.kind != 'return':
                continue
            cm = p.cond_map()
            dec = [sorted(l) for v, l in cm.items() if v.startswith('call:Cert::decode')]
            exp = _expiry(cm)
            o = p.outcome or ''
            if re.match(r'^Result::Ok\(', o) and _is_expiry_expr(o[len('Result::Ok('):-1]):
                # `Ok(cert.not_after() > now)`: kept iff unexpired, decided by the comparison itself
                n_del += 1
                n_keep += 1
                ctx.check(dec and dec[0] == ['Ok'], 'K4', 'cleanup_ta:keep=>decodable&unexpired', 'kept copies decode and have not expired',
                          'the expiry of a stored TA certificate is evaluated although decode=%s' % dec)
            elif o == 'Result::Ok(const(0))':
                n_del += 1
                why = (dec and dec[0] == ['Err']) or exp == 'expired'
                ctx.check(bool(why), 'K4', 'cleanup_ta:delete=>undecodable-or-expired', 'a TA copy is deleted only when undecodable or expired',
                          'a stored TA certificate is deleted on a path that established neither a decode failure nor expiry (conditions: %s)' % sorted(cm))
            elif o == 'Result::Ok(const(1))':
                n_keep += 1
                ctx.check(dec and dec[0] == ['Ok'] and exp == 'valid', 'K4', 'cleanup_ta:keep=>decodable&unexpired', 'kept copies decode and have not expired',
                          'a stored TA certificate is kept although decode=%s expiry=%s' % (dec, exp))
            elif not o.endswith('@Break.0'):
                ctx.bad('K4', 'cleanup_ta:outcome', 'unexpected outcome of the keep closure: %s' % p.outcome)
            other = sorted(v for v, l in cm.items() if not v.startswith('call:Cert::decode') and 'not_after' not in v and not v.startswith('call:fatal::read_file')
                           and p.outcome.startswith('Result::Ok'))
            ctx.check(not other, 'K4', 'cleanup_ta:nothing-else-decides', 'only decodability and expiry decide',
                      'the fate of a stored TA certificate also depends on %s' % other)
        ctx.floor('K4', 'cleanup_ta keep paths', n_keep, 1)
        ctx.floor('K4', 'cleanup_ta delete paths', n_del, 2)


def rule_dir_tree(ctx):
    bs = ctx.facts.find('store::Run::cleanup_dir_tree::recurse')
    if len(bs) != 1:
        ctx.bad('flag', 'anchor:recurse', 'cleanup_dir_tree::recurse not found')
        return
    b = bs[0]
    ctx.bodies.add(b.nid)
    keep = None
    for l, d in enumerate(b.locals):
        if b.local_name(l) == 'keep' and d['ty'] == 'bool':
            keep = l
    if keep is None:
        ctx.bad('flag', 'recurse:no-keep-flag', 'no bool local `keep` in recurse (shape not recognised)')
        return
    allb = set(range(len(b.blocks)))
    ass = const_bool_assigns(b, keep, allb)
    loops = set()
    for e in b.back_edges():
        loops |= b.natural_loop(e)
    init = [(s, v) for s, v in ass if s.bb not in loops]
    inl = [(s, v) for s, v in ass if s.bb in loops]
    ctx.check(len(init) == 1 and init[0][1] == 0, 'flag', 'recurse:keep-initialised-false', 'keep starts as false', 'keep initialisation: %s' % [(s.loc(), v) for s, v in init])
    def monotone(site, v):
        if v == 1:
            return True
        st = site.stmt if not site.is_term else None
        if st and st['s'] == 'assign' and st['rv']['r'] == 'bin' and st['rv']['op'] == 'BitOr':
            for o in (st['rv']['a'], st['rv']['b']):
                pl = o.get('c') or o.get('m')
                if pl == [keep]:
                    return True   # keep |= x
        return False
    ctx.check(bool(inl) and all(monotone(s_, v) for s_, v in inl), 'flag', 'recurse:keep-only-set-true',
              'inside the loop keep is only ever set to the constant true (sticky OR over all entries)',
              'inside the directory loop `keep` is assigned %s: the result must be "some entry was kept", not the verdict of the last '
              'entry - otherwise a directory holding a live point is removed when the entry listed last is expired'
              % [(s.loc(), v) for s, v in inl], loc=inl[0][0].loc() if inl else None)
    # the function result is the flag
    rets = [s for s, st in b.stmts() if st['s'] == 'assign' and st['lhs'] == [0] and st['rv']['r'] == 'agg' and st['rv'].get('variant') == 'Ok']
    okret = [s for s in rets if user_local_of(b, s.stmt['rv']['ops'][0]) == 'keep']
    ctx.check(len(okret) >= 1, 'flag', 'recurse:returns-keep', 'recurse returns the keep flag', 'recurse does not return `keep`')
    # deletions are guarded
    rd = b.calls('utils::fatal::remove_dir_all')
    rf = b.calls('utils::fatal::remove_file')
    e1, sw1 = G('sub-directory not kept', call='store::Run::cleanup_dir_tree::recurse', labels={'false'}).edges(b)
    e2, sw2 = G('file not kept', call='re:FnMut::call_mut$', labels={'false'}).edges(b)
    for s in rd:
        ctx.check(bool(sw1) and b.path_avoiding(s.bb, avoid_edges=e1) is None, 'K1', 'recurse:remove_dir_all<=!recurse', 'a directory is removed only if nothing below it was kept',
                  'remove_dir_all not guarded by the recursive result', loc=s.loc())
    for s in rf:
        ctx.check(bool(sw2) and b.path_avoiding(s.bb, avoid_edges=e2) is None, 'K1', 'recurse:remove_file<=!keep(file)', 'a file is removed only if the predicate rejected it',
                  'remove_file not guarded by the predicate', loc=s.loc())
    # setting keep=true happens on both keep edges
    t1 = [(s_, t_) for (s_, t_) in G('x', call='store::Run::cleanup_dir_tree::recurse', labels={'true'}).edges(b)[0]]
    t2 = [(s_, t_) for (s_, t_) in G('x', call='re:FnMut::call_mut$', labels={'true'}).edges(b)[0]]
    for nm, es in (('sub-directory kept', t1), ('file kept', t2)):
        for (_s, t) in es:
            r = b.reachable(t, avoid_nodes=[s.bb for s, _v in inl])
            heads = set(h for _t, h in b.back_edges())
            leaked = [h for h in heads if h in r and h != t]
            ctx.check(not leaked, 'flag', 'recurse:%s=>keep-set' % nm.replace(' ', '-'), '%s sets keep' % nm, 'a %s does not set the keep flag before the next entry' % nm)


def rule_collectors(ctx):
    for bpat, ins in (('collector::rrdp::base::Run::cleanup', 'HashSet::insert'), ('collector::rsync::Run::cleanup', 'collector::rsync::ModuleSet::add_from_uri')):
        b = ctx.body(bpat)
        adds = b.calls(ins)
        walks = b.calls('utils::fatal::read_dir')
        ctx.floor('K2', 'retain registration in ' + bpat, len(adds), 1)
        ctx.floor('K2', 'directory walk in ' + bpat, len(walks), 1)
        ups = [s for s in b.calls(['RwLock::read']) if 'updated' in arg_path(s, 0)]
        ctx.check(bool(ups), 'K2', '%s:reads-updated' % bpat, 'the run\'s `updated` set is consulted', '`updated` is not consulted')
        for w in walks:
            ctx.check(all(b.site_dominates(u, w) for u in ups) and all(not b.can_reach(w.bb, a.bb) for a in adds), 'K2', '%s:updated->retain<walk' % bpat,
                      'everything touched in this run is registered before the directory is walked',
                      'the directory walk can start before the repositories/modules used in this run were added to the retain set', loc=w.loc())


def rule_retain_keys_canonical(ctx):
    """The retain set is looked up with the (lower-case) directory names of the collector: it must be keyed by the canonical
    authority / canonical URI parts, like the paths are (C30)."""
    import re as _re
    n = 0
    raw = []
    for b in ctx.facts.all_bodies():
        if not _re.match(r'^collector::rsync::ModuleSet::', b.nid) or b.rec.get('derive'):
            continue
        ctx.bodies.add(b.nid)
        n += len(b.calls('rpki::uri::Rsync::canonical_authority'))
        raw += [(b, x) for x in b.calls('rpki::uri::Rsync::authority')]
    ctx.floor('K3', 'canonical_authority uses in ModuleSet', n, 1)
    ctx.check(not raw, 'K3', 'ModuleSet:keys-canonical',
              'ModuleSet is keyed by Rsync::canonical_authority only',
              'collector::rsync::ModuleSet uses the raw Rsync::authority() (%s): modules are stored under the lower-cased host and '
              'cleanup looks those directory names up in the retain set, so a retained publication point with a mixed-case host is '
              'not found and its module directory is deleted' % [x[0].nid for x in raw], loc=raw[0][1].loc() if raw else None)


RULES = [rule_retain_keys_canonical, rule_gates, rule_points, rule_ta_cleanup, rule_dir_tree, rule_collectors]
