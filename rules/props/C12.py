"""C12 Merged deltas equal the direct delta (K4 merge tables)."""
import re
from lib.mergejoin import rows
from lib.rules import arg_desc, agg_sites
from lib.tables import describe
from props.C11 import A_OLD, A_NEW, A_BOTH, rule_aspa as c11_rule_aspa_construct

META = dict(
    level='other',
    explanation=(
        'K4 tables over one iteration of StandardDelta::merge and AspaDelta::merge (paths from the loop head, cursor '
        'variables resolved per path): key only in old -> keep old item, advance old; only in new -> keep new item, advance '
        'new; same key: the resulting action is compared with the table the property implies - Standard: (A,W)->dropped, '
        '(W,A)->dropped, (A,A)->A, (W,W)->W; ASPA (rows the code itself marks "cannot happen" are not compared): '
        '(Announce,Update)->Announce, (Announce,Withdraw)->dropped, (Update p,Update)->dropped iff p == new providers else '
        'Update p, (Update p,Withdraw)->Withdraw p, (Withdraw p,Announce)->dropped iff p == new providers else Update p; the '
        'provider set carried is always the one remembered by the OLD action; exhausted side -> keep the rest of the other. '
        'PayloadDelta::merge takes the serial from `new` and merges each part as (self, new). Necessary conditions of the '
        'law merge(d1,d2) = direct delta; the law over all sequences is not decided.'),
    decides='per-row behaviour of both merge functions, argument order and serial of PayloadDelta::merge',
    undecided='the algebraic law over sequences of data sets',
    trusted_base=['rustc MIR construction + callee resolution'],
    rules=['K4 StandardDelta::merge rows', 'K4 AspaDelta::merge rows', 'K4 PayloadDelta::merge shape', 'K4 AspaDelta::construct remembers the old provider set (shared with C11)'],
)


def parse_push(desc):
    """-> ('keep-old'|'keep-new'|('new-key', action, carried))"""
    if desc.startswith('var:opt_old@Some.0') and 'tuple(' not in desc:
        return 'keep-old'
    if desc.startswith('var:opt_new@Some.0') and 'tuple(' not in desc:
        return 'keep-new'
    m = re.match(r'^tuple\((var:opt_(old|new)@Some\.0\.0),Option::Some\((?:Aspa)?Action::(\w+)\((.*)\)\)@Some\.0\)$', desc)
    if not m:
        return ('?', desc)
    side, act, inner = m.group(2), m.group(3), m.group(4)
    carried = None
    if inner:
        mm = re.search(r'\)\.(0|1)@(Update|Withdraw)\.0', inner)
        m2 = re.search(r'opt_(old|new)@Some\.0\.1@(Update|Withdraw)\.0', inner)
        carried = ('old' if mm.group(1) == '0' else 'new') + '-action providers' if mm else (m2.group(1) + '-action providers' if m2 else inner)
    return (side + '-key', act, carried)


def rows_equal_key(rws):
    out = []
    for r in rws:
        c = r['conds']
        cmpv = None
        acts = {}
        prov = None
        for k, v in c.items():
            if k == 'cmp' or (('Ord' in k) and 'cmp(' in k and k.startswith('call:')):
                cmpv = v
            elif (k.startswith('tuple(') and k.endswith(').0')) or re.match(r'^var:opt_old@Some\.0\.1$', k):
                acts['old'] = v
            elif (k.startswith('tuple(') and k.endswith(').1')) or re.match(r'^var:opt_new@Some\.0\.1$', k):
                acts['new'] = v
            elif k.startswith('cmp(') and 'providers' in k:
                prov = 'same' if v == 'Equal' else 'differ'
                side_ok = (re.search(r'\)\.0@(Update|Withdraw)\.0', k) is not None or re.search(r'opt_old@Some\.0\.1@(Update|Withdraw)\.0', k) is not None) \
                    and 'opt_new@Some.0.0.providers' in k
                acts['prov_operands_ok'] = side_ok
        out.append((c.get('old'), c.get('new'), cmpv, acts, prov, r))
    return out


def check(ctx, name, body, table, skip=()):
    rws = rows(ctx.facts, body)
    seen = set()
    for old, new, cmpv, acts, prov, r in rows_equal_key(rws):
        pushes = [parse_push(e[1]) for e in r['events'] if e[0] == 'push']
        advs = sorted(set((e[1], e[2]) for e in r['events'] if e[0] == 'adv'))
        exts = [(e[1], e[2]) for e in r['events'] if e[0] == 'extend']
        if (old, new) == ('Some', 'Some') and cmpv == 'Less':
            ctx.check(pushes == ['keep-old'] and advs == A_OLD, 'K4', '%s:sole-old' % name, 'sole old item kept, old advanced',
                      '%s: key only in old -> pushes %s, advances %s' % (name, pushes, advs))
            seen.add('less')
        elif (old, new) == ('Some', 'Some') and cmpv == 'Greater':
            ctx.check(pushes == ['keep-new'] and advs == A_NEW, 'K4', '%s:sole-new' % name, 'sole new item kept, new advanced',
                      '%s: key only in new -> pushes %s, advances %s' % (name, pushes, advs))
            seen.add('greater')
        elif (old, new) == ('Some', 'Some') and cmpv == 'Equal' and ('|' in (acts.get('old') or '') or '|' in (acts.get('new') or '')):
            # an or-pattern arm `(Withdraw(p), Announce | Update(_))` stands for each of its members
            for ao in (acts.get('old') or '').split('|'):
                for an in (acts.get('new') or '').split('|'):
                    key = (ao or None, an or None, prov)
                    ctx.check(advs == A_BOTH, 'K4', '%s:equal%s:advance' % (name, key), 'both cursors advance', '%s row %s advances %s' % (name, key, advs))
                    if (key[0], key[1]) in skip:
                        seen.add(key)
                        continue
                    if key not in table:
                        ctx.bad('K4', '%s:unexpected-row:%s' % (name, key), '%s has an equal-key row %s not in the merge table' % (name, key))
                        continue
                    seen.add(key)
                    exp = table[key]
                    got = pushes[0] if pushes else None
                    if got is not None and got[0] != 'new-key' and got[0] != 'old-key':
                        got = ('?',) + tuple(got)
                    gotn = None if got is None else (got[1], got[2])
                    ctx.check(gotn == exp and len(pushes) <= 1, 'K4', '%s:equal%s' % (name, key), '-> %s' % (gotn,),
                              '%s: same key with (old action %s, new action %s%s) yields %s, expected %s'
                              % (name, key[0], key[1], (', providers ' + key[2]) if key[2] else '', gotn, exp))
                    if prov is not None:
                        ctx.check(acts.get('prov_operands_ok', False), 'K4', '%s:equal%s:provider-operands' % (name, key),
                                  'the remembered OLD-action providers are compared with the NEW item\'s providers', 'provider comparison operands changed')
        elif (old, new) == ('Some', 'Some') and cmpv == 'Equal':
            key = (acts.get('old'), acts.get('new'), prov)
            ctx.check(advs == A_BOTH, 'K4', '%s:equal%s:advance' % (name, key), 'both cursors advance', '%s row %s advances %s' % (name, key, advs))
            if (acts.get('old'), acts.get('new')) in skip:
                seen.add(key)
                continue
            if key not in table:
                ctx.bad('K4', '%s:unexpected-row:%s' % (name, key), '%s has an equal-key row %s not in the merge table' % (name, key))
                continue
            seen.add(key)
            exp = table[key]
            got = pushes[0] if pushes else None
            if got is not None and got[0] != 'new-key' and got[0] != 'old-key':
                got = ('?',) + tuple(got)
            gotn = None if got is None else (got[1], got[2])
            ctx.check(gotn == exp and len(pushes) <= 1, 'K4', '%s:equal%s' % (name, key), '-> %s' % (gotn,),
                      '%s: same key with (old action %s, new action %s%s) yields %s, expected %s'
                      % (name, key[0], key[1], (', providers ' + key[2]) if key[2] else '', gotn, exp))
            if prov is not None:
                ctx.check(acts.get('prov_operands_ok', False), 'K4', '%s:equal%s:provider-operands' % (name, key),
                          'the remembered OLD-action providers are compared with the NEW item\'s providers', 'provider comparison operands changed')
            ctx.sample(dict(fn=name, old_action=key[0], new_action=key[1], providers=key[2], result=gotn))
        elif (old, new) == ('Some', 'None'):
            ctx.check(pushes == ['keep-old'] and [e[0] for e in exts] == ['old_iter'], 'K4', '%s:new-exhausted' % name,
                      'rest of old kept', '%s: new exhausted -> pushes %s tail %s' % (name, pushes, exts))
            seen.add('tail-old')
        elif (old, new) == ('None', 'Some'):
            ctx.check(pushes == ['keep-new'] and [e[0] for e in exts] == ['new_iter'], 'K4', '%s:old-exhausted' % name,
                      'rest of new kept', '%s: old exhausted -> pushes %s tail %s' % (name, pushes, exts))
            seen.add('tail-new')
        elif (old, new) == ('None', 'None'):
            ctx.check(pushes == [], 'K4', '%s:both-exhausted' % name, 'nothing pushed', 'pushes %s' % pushes)
    need = {'less', 'greater', 'tail-old', 'tail-new'} | set(table)
    ctx.check(need <= seen, 'K4', '%s:all-rows' % name, 'all rows present', 'rows missing: %s' % sorted(map(str, need - seen)))
    # comparison by key, old first
    for r in rws:
        for k in list(r['conds']):
            if k == 'cmp':
                ops = r['conds'].get('cmp_operands', '')
                ctx.check(ops.index('opt_old') < ops.index('opt_new'), 'K4', '%s:cmp-order' % name, 'old.cmp(new)', 'operands: %s' % ops)


def rule_standard(ctx):
    bs = ctx.facts.find('payload::delta::StandardDelta::merge')
    if len(bs) != 1:
        ctx.bad('K4', 'anchor:StandardDelta::merge', 'anchor missing')
        return
    ctx.bodies.add(bs[0].nid)
    table = {
        ('Announce', 'Announce', None): ('Announce', None),
        ('Announce', 'Withdraw', None): None,
        ('Withdraw', 'Announce', None): None,
        ('Withdraw', 'Withdraw', None): ('Withdraw', None),
    }
    # normalise: dropped rows are compared as None
    t2 = {k: v for k, v in table.items()}
    check(ctx, 'StandardDelta::merge', bs[0], t2)


def rule_aspa(ctx):
    b = ctx.body('payload::delta::AspaDelta::merge')
    old = 'old-action providers'
    table = {
        ('Announce', 'Update', None): ('Announce', None),
        ('Announce', 'Withdraw', None): None,
        ('Update', 'Update', 'same'): None,
        ('Update', 'Update', 'differ'): ('Update', old),
        ('Update', 'Withdraw', None): ('Withdraw', old),
        ('Withdraw', 'Announce', 'same'): None,
        ('Withdraw', 'Announce', 'differ'): ('Update', old),
    }
    check(ctx, 'AspaDelta::merge', b, table,
          skip=[('Announce', 'Announce'), ('Update', 'Announce'), ('Withdraw', 'Update'), ('Withdraw', 'Withdraw')])


def rule_payload(ctx):
    b = ctx.body('payload::delta::PayloadDelta::merge')
    for l in agg_sites(b, 'payload::delta::PayloadDelta'):
        rv = l.stmt['rv']
        d = {f: describe(b.origin_of_operand(rv['ops'][rv['names'].index(f)])) for f in rv['names']}
        ctx.check(d['serial'] == 'new.serial', 'K4', 'PayloadDelta::merge:serial', 'serial taken from new', 'serial is %s' % d['serial'])
        for f in ('origins', 'router_keys', 'aspas'):
            ok = bool(re.match(r'^call:\w+::merge\(self\.%s,new\.%s\)$' % (f, f), d[f]))
            ctx.check(ok, 'K4', 'PayloadDelta::merge:%s' % f, '%s = merge(self.%s, new.%s)' % (f, f, f), '%s = %s' % (f, d[f]))


# the merge table reads the provider set remembered by Update/Withdraw: AspaDelta::construct must remember the OLD one
RULES = [rule_standard, rule_aspa, rule_payload, c11_rule_aspa_construct]
