"""Row extraction for merge-join loops (two cursors opt_old/opt_new over sorted sequences)."""
import re
from .tables import enumerate_paths, describe
from .rules import user_local_of
from .facts import norm


def closure_outcomes(facts, body, origin):
    while origin is not None and origin.kind in ('ref', 'cast'):
        origin = origin.base
    if origin is not None and origin.kind == 'agg' and origin.rv.get('kind') == 'closure':
        cls = facts.find(norm(origin.rv['def']))
        if cls:
            return sorted(set(p.outcome for p in enumerate_paths(cls[0], facts)))
    if origin is not None and origin.kind == 'const' and getattr(origin, 'fn', None):
        return ['fn:' + origin.fn]
    return None


def deep_leaves(o, _seen=None, _depth=0):
    """Leaves of an origin, looking through calls (their arguments), aggregates and alternatives."""
    if _seen is None:
        _seen = {}
    if o is None or id(o) in _seen or _depth > 12:
        return []
    _seen[id(o)] = o
    k = o.kind
    subs = []
    if k == 'call':
        subs = list(o.args or [])
    elif k in ('place', 'ref', 'cast'):
        subs = [o.base]
    elif k == 'agg':
        subs = list(getattr(o, 'ops', None) or [])
    elif k == 'bin':
        subs = [o.a, o.b]
    elif k == 'un':
        subs = [o.a]
    elif k == 'multi':
        subs = list(getattr(o, 'alts', None) or [])
    else:
        return [o]
    out = []
    for x in subs:
        out += deep_leaves(x, _seen, _depth + 1)
    return out


def _named_local(body, place, names, depth=0):
    """The user-named local a temporary operand refers to (`&mut old_iter` held in a temp)."""
    if not place or depth > 6:
        return None
    l = place[0]
    if l in names:
        return l
    defs = [st for _site, st in body.stmts() if st['s'] == 'assign' and st['lhs'] == [l]]
    if len(defs) != 1:
        return None
    rv = defs[0]['rv']
    if rv['r'] == 'ref':
        return _named_local(body, rv.get('p'), names, depth + 1)
    if rv['r'] == 'use':
        o = rv['o']
        return _named_local(body, o.get('m') or o.get('c'), names, depth + 1)
    return None


CANON = ('old_iter', 'new_iter', 'opt_old', 'opt_new', 'old_item', 'new_item')


def canonicalise_names(body):
    """The row extraction below speaks of the two cursors by the names they have on the reference tree. Roles are
    recovered from data flow, so that renamed locals are looked at under the reference names: the iterator whose value
    derives from the first parameter is `old_iter`, the local its next() result is moved into is `opt_old`, the local
    bound to that cursor's Some payload is `old_item` (likewise `new_*` for the second parameter)."""
    if getattr(body, '_mj_canon', False):
        return
    body._mj_canon = True
    names = body._names
    params = {d['p'][0]: d['arg'] for d in body.rec.get('debug', []) if d.get('arg') and len(d['p']) == 1}
    pname = {d['name']: d['arg'] for d in body.rec.get('debug', []) if d.get('arg')}
    role_of_iter = {}
    cursor_of = {}
    for s in body.calls('re:::next$'):
        t = s.term
        if not t['args'] or len(t.get('dest') or []) != 1:
            continue
        a = t['args'][0]
        pl = a.get('m') or a.get('c')
        it = _named_local(body, pl, names)
        if it is None:
            continue
        idx = set()
        for lf in deep_leaves(body.origin_of_place([it])):
            if lf.kind == 'param' and getattr(lf, 'name', None) in pname:
                idx.add(pname[lf.name])
        if len(idx) != 1:
            continue
        side = {1: 'old', 2: 'new'}.get(idx.pop())
        if not side:
            continue
        role_of_iter[it] = side
        for site, st in body.stmts():
            if st['s'] == 'assign' and st['rv']['r'] == 'use' and st['rv']['o'].get('m') == t['dest'] and len(st['lhs']) == 1 and st['lhs'][0] in names:
                cursor_of[st['lhs'][0]] = side
    item_of = {}
    for site, st in body.stmts():
        if st['s'] != 'assign' or len(st['lhs']) != 1 or st['lhs'][0] not in names or st['rv']['r'] not in ('use', 'ref'):
            continue
        src = st['rv'].get('o') or st['rv'].get('p') or {}
        pl = src.get('m') or src.get('c') if isinstance(src, dict) else src
        if isinstance(pl, list) and pl and pl[0] in cursor_of and len(pl) > 1:
            item_of[st['lhs'][0]] = cursor_of[pl[0]]
    ren = {}
    for l, side in role_of_iter.items():
        ren[l] = side + '_iter'
    for l, side in cursor_of.items():
        ren[l] = 'opt_' + side
    for l, side in item_of.items():
        if l not in cursor_of:
            ren[l] = side + '_item'
    if not ren:
        return
    taken = set(ren.values())
    for l, nm in list(names.items()):
        if l not in ren and nm in taken:
            names[l] = nm + '_'     # an unrelated local that happens to carry a reference name
    for l, nm in ren.items():
        names[l] = nm
    body._origin_cache = {}
    if hasattr(body, '_memo'):
        body._memo = {}


def who(desc):
    o = 'opt_old' in desc or 'old_item' in desc
    n = 'opt_new' in desc or 'new_item' in desc
    if o and n:
        return 'both'
    return 'old' if o else ('new' if n else '?')


def rows(facts, body):
    from . import tables as _t
    old = _t.OPTS['tuple_proj']
    _t.OPTS['tuple_proj'] = True     # `match (opt_old, opt_new) {..}`: a test of `(a, b).0` is a test of `a`
    try:
        return _rows(facts, body)
    finally:
        _t.OPTS['tuple_proj'] = old


def _tail_loops(body):
    """The merge-join loop is the loop that advances both cursors; a loop outside it that only drains ONE of the two
    iterators into the result (`for x in old_iter { items.push(f(x)) }`) is the explicit form of
    `items.extend(old_iter.map(f))`. -> (main heads, {tail head: (iterator name, [pushed descriptions], blocks)})"""
    loops = {}
    for e in body.back_edges():
        loops.setdefault(e[1], set()).update(body.natural_loop(e))
    info = {}
    for h, blocks in loops.items():
        its = set()
        pushes = []
        for bb in blocks:
            t = body.blocks[bb]['term']
            if t['t'] != 'call':
                continue
            from .facts import Site as _S, callee_name as _cn
            nm = (_cn(t) or '').split('::')[-1]
            if nm == 'next' and t['args']:
                pl = t['args'][0].get('m') or t['args'][0].get('c')
                l = _named_local(body, pl, body._names)
                its.add(body._names.get(l, '?') if l is not None else '?')
            elif nm == 'push' and len(t['args']) == 2 and 'Vec' not in (_cn(t) or ''):
                pushes.append(describe(body.origin_of_operand(t['args'][1])))
            elif nm == 'withdraw' and 'AspaAction' in (_cn(t) or ''):
                pushes.append('AspaAction::withdraw')
        info[h] = (its, pushes, blocks)
    main = [h for h, (its, _p, _b) in info.items() if {'old_iter', 'new_iter'} <= its]
    tails = {h: (sorted(its)[0], pushes, blocks) for h, (its, pushes, blocks) in info.items()
             if h not in main and len(its) == 1 and sorted(its)[0] in ('old_iter', 'new_iter') and pushes}
    return main, tails


def _rows(facts, body):
    canonicalise_names(body)
    heads = sorted(set(h for _t, h in body.back_edges()))
    main, tails = _tail_loops(body)
    if main and tails:
        heads = [h for h in heads if h not in tails]
    else:
        tails = {}
    out = []
    seen_rows = set()
    for h in heads:
        for p in enumerate_paths(body, facts, start=h):
            if tails:
                # fold a tail loop the path runs into: everything from its head on is `extend(<iterator>.map(..))`
                cut = None
                for i, bb in enumerate(p.blocks):
                    if bb in tails and i > 0:
                        cut = (i, bb)
                        break
                if cut is not None:
                    i, th = cut
                    tb = tails[th][2]
                    keep = set(p.blocks[:i])
                    p.events = [s for s in p.events if s.bb in keep and s.bb not in tb]
                    p.conds = [c for c in p.conds if c[2] in keep and c[2] not in tb]
                    p.kind = 'return'
                    p._tail = (tails[th][0], sorted(set(tails[th][1])))
            cm = p.cond_map()
            conds = {}
            for v, labs in cm.items():
                if v == 'var:opt_old':
                    conds['old'] = '|'.join(sorted(labs))
                elif v == 'var:opt_new':
                    conds['new'] = '|'.join(sorted(labs))
                elif v.startswith('call:Ord::cmp(') or v.startswith('call:Ord>::cmp('):
                    io = min([v.find(x) for x in ('opt_old', 'old_item') if x in v] or [-1])
                    inw = min([v.find(x) for x in ('opt_new', 'new_item') if x in v] or [-1])
                    if io >= 0 and inw >= 0 and inw < io:
                        # `new.cmp(old)`: the same comparison seen from the other side
                        mir = {'Less': 'Greater', 'Greater': 'Less', 'Equal': 'Equal'}
                        conds['cmp'] = '|'.join(sorted(mir.get(x, x) for x in labs))
                        conds['cmp_operands'] = 'mirrored(opt_old,opt_new): ' + v
                    else:
                        conds['cmp'] = '|'.join(sorted(labs))
                        conds['cmp_operands'] = v
                else:
                    conds[v] = '|'.join(sorted(labs))
            ev = []
            for s in p.events:
                nm = s.callee.split('::')[-1]
                t = s.term
                if nm == 'push' and len(t['args']) == 2 and not s.callee.startswith('alloc::vec') and 'Vec' not in s.callee:
                    ea = p.event_args.get(s.bb)
                    ev.append(('push', ea[1] if ea else describe(body.origin_of_operand(t['args'][1]))))
                elif nm == 'extend' and 'Vec' not in s.callee:
                    o = body.origin_of_operand(t['args'][1])
                    src = None
                    fn = None
                    oo = o
                    while oo.kind in ('ref', 'cast'):
                        oo = oo.base
                    if oo.kind == 'call':
                        src = user_local_of(body, oo.term['args'][0]) or describe(oo.args[0])
                        adapt = oo.callee.split('::')[-1]
                        fn = closure_outcomes(facts, body, oo.args[1]) if len(oo.args) > 1 else adapt
                    ev.append(('extend', src, fn))
                elif nm == 'for_each' and len(t['args']) == 2:
                    # `iter.for_each(|x| items.push((x.clone(), Action)))` is the same tail as `items.extend(iter.map(..))`
                    src = user_local_of(body, t['args'][0]) or describe(body.origin_of_operand(t['args'][0]))
                    o = body.origin_of_operand(t['args'][1])
                    while o is not None and o.kind in ('ref', 'cast'):
                        o = o.base
                    fn = None
                    if o is not None and o.kind == 'agg' and o.rv.get('kind') == 'closure':
                        cls = facts.find(norm(o.rv['def']))
                        if cls:
                            acts = []
                            for cp in enumerate_paths(cls[0], facts):
                                for cs in cp.events:
                                    if cs.callee.split('::')[-1] == 'push' and 'Vec' not in cs.callee:
                                        ea = cp.event_args.get(cs.bb)
                                        if ea:
                                            acts.append(ea[-1])
                                    elif cs.callee.split('::')[-1] == 'withdraw' and 'AspaAction' in cs.callee:
                                        acts.append('AspaAction::withdraw')
                            fn = sorted(set(acts))
                    ev.append(('extend', src, fn))
                elif nm == 'next':
                    it = user_local_of(body, t['args'][0])
                    dest = body.local_name(t['dest'][0]) if len(t['dest']) == 1 else '?'
                    # the result is moved into the cursor variable afterwards
                    tgt = None
                    for site, st in body.stmts():
                        if st['s'] == 'assign' and st['rv']['r'] == 'use' and (st['rv']['o'].get('m') == t['dest']) and len(st['lhs']) == 1:
                            if site.bb in p.blocks:
                                tgt = body.local_name(st['lhs'][0])
                    ev.append(('adv', it, tgt or dest))
            tl = getattr(p, '_tail', None)
            if tl is not None:
                ev.append(('extend', tl[0], tl[1]))
                key = (str(sorted(conds.items())), str(ev))
                if key in seen_rows:
                    continue
                seen_rows.add(key)
            out.append(dict(kind=p.kind, conds=conds, events=ev, outcome=p.outcome))
    return out
