"""Row extraction for merge-join loops (two cursors opt_old/opt_new over sorted sequences)."""
import re
from .tables import enumerate_paths, describe
from .rules import user_local_of
from .facts import norm


def closure_outcomes(facts, body, origin):
    while origin is not None and origin.kind in ('ref', 'cast'):
        origin = origin.base
    if origin is not None and origin.kind == 'agg' and origin.rv.get('kind') == 'closure':
        cls = facts.find(norm(origin.rv['def']))
        if cls:
            return sorted(set(p.outcome for p in enumerate_paths(cls[0], facts)))
    if origin is not None and origin.kind == 'const' and getattr(origin, 'fn', None):
        return ['fn:' + origin.fn]
    return None


def who(desc):
    o = 'opt_old' in desc or 'old_item' in desc
    n = 'opt_new' in desc or 'new_item' in desc
    if o and n:
        return 'both'
    return 'old' if o else ('new' if n else '?')


def rows(facts, body):
    heads = sorted(set(h for _t, h in body.back_edges()))
    out = []
    for h in heads:
        for p in enumerate_paths(body, facts, start=h):
            cm = p.cond_map()
            conds = {}
            for v, labs in cm.items():
                if v == 'var:opt_old':
                    conds['old'] = '|'.join(sorted(labs))
                elif v == 'var:opt_new':
                    conds['new'] = '|'.join(sorted(labs))
                elif v.startswith('call:Ord::cmp('):
                    conds['cmp'] = '|'.join(sorted(labs))
                    conds['cmp_operands'] = v
                else:
                    conds[v] = '|'.join(sorted(labs))
            ev = []
            for s in p.events:
                nm = s.callee.split('::')[-1]
                t = s.term
                if nm == 'push' and len(t['args']) == 2 and not s.callee.startswith('alloc::vec') and 'Vec' not in s.callee:
                    ea = p.event_args.get(s.bb)
                    ev.append(('push', ea[1] if ea else describe(body.origin_of_operand(t['args'][1]))))
                elif nm == 'extend' and 'Vec' not in s.callee:
                    o = body.origin_of_operand(t['args'][1])
                    src = None
                    fn = None
                    oo = o
                    while oo.kind in ('ref', 'cast'):
                        oo = oo.base
                    if oo.kind == 'call':
                        src = user_local_of(body, oo.term['args'][0]) or describe(oo.args[0])
                        adapt = oo.callee.split('::')[-1]
                        fn = closure_outcomes(facts, body, oo.args[1]) if len(oo.args) > 1 else adapt
                    ev.append(('extend', src, fn))
                elif nm == 'for_each' and len(t['args']) == 2:
                    # `iter.for_each(|x| items.push((x.clone(), Action)))` is the same tail as `items.extend(iter.map(..))`
                    src = user_local_of(body, t['args'][0]) or describe(body.origin_of_operand(t['args'][0]))
                    o = body.origin_of_operand(t['args'][1])
                    while o is not None and o.kind in ('ref', 'cast'):
                        o = o.base
                    fn = None
                    if o is not None and o.kind == 'agg' and o.rv.get('kind') == 'closure':
                        cls = facts.find(norm(o.rv['def']))
                        if cls:
                            acts = []
                            for cp in enumerate_paths(cls[0], facts):
                                for cs in cp.events:
                                    if cs.callee.split('::')[-1] == 'push' and 'Vec' not in cs.callee:
                                        ea = cp.event_args.get(cs.bb)
                                        if ea:
                                            acts.append(ea[-1])
                                    elif cs.callee.split('::')[-1] == 'withdraw' and 'AspaAction' in cs.callee:
                                        acts.append('AspaAction::withdraw')
                            fn = sorted(set(acts))
                    ev.append(('extend', src, fn))
                elif nm == 'next':
                    it = user_local_of(body, t['args'][0])
                    dest = body.local_name(t['dest'][0]) if len(t['dest']) == 1 else '?'
                    # the result is moved into the cursor variable afterwards
                    tgt = None
                    for site, st in body.stmts():
                        if st['s'] == 'assign' and st['rv']['r'] == 'use' and (st['rv']['o'].get('m') == t['dest']) and len(st['lhs']) == 1:
                            if site.bb in p.blocks:
                                tgt = body.local_name(st['lhs'][0])
                    ev.append(('adv', it, tgt or dest))
            out.append(dict(kind=p.kind, conds=conds, events=ev, outcome=p.outcome))
    return out
