"""K6 sink typing: for every formatted value (core::fmt::rt::Argument::new_display/new_debug::<T>) find the literal
template text around its `{}` placeholder in the source file and classify the context."""
import os
import re
from .facts import norm, callee_name

_src_cache = {}


def _src(repo, file):
    p = file if os.path.isabs(file) else os.path.join(repo, file)
    key = (p, os.stat(p).st_mtime_ns)
    if key not in _src_cache:
        with open(p, 'rb') as f:
            _src_cache[key] = f.read()
    return _src_cache[key]


def _literals(data, start, end):
    """Tokenise Rust string literals in data[start:end] -> list of (lo, hi, raw, content_lo, content_hi)."""
    out = []
    i = start
    n = min(end, len(data))
    while i < n:
        c = data[i:i + 1]
        if data[i:i + 2] == b'//':
            j = data.find(b'\n', i)
            i = n if j < 0 else j + 1
            continue
        if data[i:i + 2] == b'/*':
            j = data.find(b'*/', i + 2)
            i = n if j < 0 else j + 2
            continue
        if c == b"'":
            # char literal or lifetime
            m = re.match(rb"'(\\.[^']*|[^'\\])'", data[i:i + 12])
            if m:
                i += m.end()
            else:
                i += 1
            continue
        m = re.match(rb'b?r(#*)"', data[i:i + 12])
        if m and (i == 0 or not (data[i - 1:i].isalnum() or data[i - 1:i] == b'_')):
            hashes = m.group(1)
            clo = i + m.end()
            close = b'"' + hashes
            j = data.find(close, clo)
            if j < 0:
                break
            out.append((i, j + len(close), True, clo, j))
            i = j + len(close)
            continue
        if c == b'"' or (data[i:i + 2] == b'b"' and not (data[i - 1:i].isalnum())):
            clo = i + (2 if c == b'b' else 1)
            j = clo
            while j < len(data):
                if data[j:j + 1] == b'\\':
                    j += 2
                    continue
                if data[j:j + 1] == b'"':
                    break
                j += 1
            out.append((i, j + 1, False, clo, j))
            i = j + 1
            continue
        i += 1
    return out


def _decode(raw_bytes, is_raw, mark=False):
    """Decode a Rust literal body; with mark=True literal braces become \\x01/\\x02 so that `{..}` holes stay visible."""
    LB, RB = ('\x01', '\x02') if mark else ('{', '}')
    s = raw_bytes.decode('utf-8', 'replace')
    if is_raw:
        return s.replace('{{', LB).replace('}}', RB)
    out = []
    i = 0
    while i < len(s):
        ch = s[i]
        if ch == '\\' and i + 1 < len(s):
            nx = s[i + 1]
            if nx == 'n':
                out.append('\n')
                i += 2
            elif nx == 't':
                out.append('\t')
                i += 2
            elif nx == 'r':
                out.append('\r')
                i += 2
            elif nx == '\\':
                out.append('\\')
                i += 2
            elif nx == '"':
                out.append('"')
                i += 2
            elif nx == "'":
                out.append("'")
                i += 2
            elif nx == '0':
                out.append('\0')
                i += 2
            elif nx == '\n':
                i += 2
                while i < len(s) and s[i] in ' \t\n\r':
                    i += 1
            elif nx == 'u':
                m = re.match(r'\\u\{([0-9a-fA-F_]+)\}', s[i:])
                if m:
                    out.append(chr(int(m.group(1).replace('_', ''), 16)))
                    i += m.end()
                else:
                    i += 2
            elif nx == 'x':
                out.append(chr(int(s[i + 2:i + 4], 16)))
                i += 4
            else:
                out.append(nx)
                i += 2
            continue
        if s[i:i + 2] == '{{':
            out.append(LB)
            i += 2
            continue
        if s[i:i + 2] == '}}':
            out.append(RB)
            i += 2
            continue
        out.append(ch)
        i += 1
    return ''.join(out)


def in_quoted_string(text):
    """Is the end of `text` inside a double-quoted (JSON-style) string?"""
    ins = False
    i = 0
    while i < len(text):
        ch = text[i]
        if ins and ch == '\\':
            i += 2
            continue
        if ch == '"':
            ins = not ins
        i += 1
    return ins


class Placeholder:
    def __init__(self, **kw):
        self.__dict__.update(kw)

    def loc(self):
        return '%s:%d' % (self.file, self.line)


def placeholders(body, repo):
    out = []
    for s in body.calls(['core::fmt::rt::Argument::new_display', 'core::fmt::rt::Argument::new_debug',
                         'core::fmt::rt::Argument::new_lower_hex', 'core::fmt::rt::Argument::new_upper_hex']):
        t = s.term
        sp = t['span']
        kind = callee_name(t).split('::')[-1]
        ty = (t['fn'].get('targs') or ['?'])[0]
        file = sp['file']
        try:
            data = _src(repo, file)
        except OSError:
            out.append(Placeholder(site=s, ty=ty, kind=kind, file=file, line=sp['line'], found=False, why='no source'))
            continue
        blo, bhi = sp['blo'], sp['bhi']
        cs = t.get('cs') or sp
        scan_lo = min(cs['blo'], blo)
        # start scanning at the beginning of the line of the macro call site
        ls = data.rfind(b'\n', 0, scan_lo) + 1
        lits = _literals(data, ls, max(cs.get('bhi', bhi), bhi) + 200)
        lit = None
        for lo, hi, is_raw, clo, chi in lits:
            if clo <= blo and bhi <= chi:
                lit = (lo, hi, is_raw, clo, chi)
        if lit is None:
            out.append(Placeholder(site=s, ty=ty, kind=kind, file=file, line=sp['line'], found=False, why='placeholder not inside a literal'))
            continue
        lo, hi, is_raw, clo, chi = lit
        before = _decode(data[clo:blo], is_raw)
        after = _decode(data[bhi:chi], is_raw)
        hole = data[blo:bhi].decode('utf-8', 'replace')
        origin = body.origin_of_operand(t['args'][0]) if t['args'] else None
        out.append(Placeholder(site=s, ty=ty, kind=kind, file=file, line=sp['line'], found=True, before=before, after=after,
                               hole=hole, quoted=in_quoted_string(before), origin=origin, template=_decode(data[clo:chi], is_raw), marked=_decode(data[clo:chi], is_raw, mark=True)))
    return out


# Types whose Display output can only consist of characters that need no escaping in a JSON string
# or a Prometheus label value. One reason per row.
INERT = [
    (r'^&*(u8|u16|u32|u64|u128|usize|i8|i16|i32|i64|i128|isize|f32|f64|bool)$', 'numbers / bool'),
    (r'^&*rpki::resources::Asn$', 'AS<digits>'),
    (r'^&*rpki::resources::asres::Asn$', 'AS<digits>'),
    (r'^&*std::net::(IpAddr|Ipv4Addr|Ipv6Addr|SocketAddr)$', 'hex digits, dots, colons, brackets'),
    (r'^&*core::net::(ip_addr::)?(IpAddr|Ipv4Addr|Ipv6Addr)$', 'hex digits, dots, colons'),
    (r'^&*rpki::resources::(addr::)?(Prefix|MaxLenPrefix)$', 'address/len'),
    (r'^&*rpki::resources::Prefix$', 'address/len'),
    (r'^&*rpki::crypto::keys::KeyIdentifier$', 'hex'),
    (r'^&*rpki::crypto::KeyIdentifier$', 'hex'),
    (r'^&*rpki::rtr::payload::RouterKeyInfo$', 'base64'),
    (r'^&*rpki::rtr::pdu::RouterKeyInfo$', 'base64'),
    (r'^&*rpki::rtr::(state::)?Serial$', 'digits'),
    (r'^&*uuid::Uuid$', 'hex and dashes'),
    (r'^&*rpki::uri::(Rsync|Https)$', 'rpki::uri constructors reject `"`, `\\`, space and control characters (is_u8_uri_ascii)'),
    (r'^&*validity::RouteState$', 'fixed words'),
    (r'^&*log::Level$', 'fixed words'),
    (r'^&*metrics::HttpStatus$', 'fixed words / digits'),
    (r'^&*chrono::format::DelayedFormat<', 'crate-constant item lists producing digits and punctuation'),
    (r'^&*std::time::Duration$', 'Debug digits'),
    (r'^&*rpki::repository::x509::Time$', 'ISO date digits'),
    (r'^&*chrono::DateTime<chrono::Utc>$', 'ISO date digits'),
]


def inert_reason(ty):
    t = ty.replace("&'static ", '&')
    t = re.sub(r"&'[a-z_]+ ", '&', t)
    t = t.replace('&mut ', '&')
    for rx, why in INERT:
        if re.match(rx, t):
            return why
    return None
