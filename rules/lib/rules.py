"""Generic rule helpers shared by the per-property rule tables."""
import re
from .facts import (Site, Origin, callee_matches, callee_name, norm, path_matches,
                    guard_edges, origin_is_call, PASS_LABELS, FAIL_LABELS)

LOCK_ACQUIRE = [
    'utils::sync::RwLock::read', 'utils::sync::RwLock::write', 'utils::sync::Mutex::lock',
    'std::sync::RwLock::read', 'std::sync::RwLock::write', 'std::sync::Mutex::lock',
    'payload::history::SharedHistory::read', 'payload::history::SharedHistory::write',
]


def strip_origin(o, through_locks=True, maxd=40):
    """Follow refs/casts/transparent calls (and lock acquisitions) to the
    underlying storage origin."""
    d = 0
    while o is not None and d < maxd:
        d += 1
        if o.kind in ('ref', 'cast'):
            o = o.base
            continue
        if o.kind == 'call' and through_locks and callee_matches(o.term, LOCK_ACQUIRE) and o.args:
            o = o.args[0]
            continue
        if o.kind == 'call' and callee_matches(o.term, ['Result::unwrap', 'Option::unwrap', 'Result::expect']) and o.args:
            o = o.args[0]
            continue
        break
    return o


def arg_path(site, i=0, through_locks=True):
    """Access path string of the i-th argument of a call site."""
    b = site.body
    o = b.origin_of_operand(site.term['args'][i])
    o = strip_origin(o, through_locks)
    if o.kind == 'place':
        base = strip_origin(o.base, through_locks)
        return Origin('place', base=base, proj=o.proj).path()
    return o.path()


def arg_origin(site, i=0):
    return site.body.origin_of_operand(site.term['args'][i])


def calls_on_field(body, callee_pat, field):
    """Call sites matching callee_pat whose receiver's access path ends in .field"""
    out = []
    for s in body.calls(callee_pat):
        if not s.term['args']:
            continue
        p = arg_path(s, 0)
        if p.endswith('.' + field) or ('.' + field + '.') in p or ('.' + field + '@') in p:
            out.append(s)
    return out


def dominated_by_any(body, site, doms):
    return any(body.site_dominates(d, site) for d in doms)


def edges_from_call(body, call_pat, labels, recv_field=None):
    """Edges of switches deciding on the result of calls matching call_pat."""
    def pred(o):
        c = origin_is_call(o, call_pat)
        if c is None:
            return False
        if recv_field is not None:
            p = arg_path(c.site, 0)
            return p.endswith('.' + recv_field)
        return True
    return guard_edges(body, pred, labels)


def must_pass_edges(body, site_bb, pass_edges, all_guard_edges_other):
    """True iff every path entry -> site_bb uses one of pass_edges, i.e. the
    block is unreachable once the pass edges are removed."""
    p = body.path_avoiding(site_bb, avoid_edges=pass_edges)
    return p is None, p


def fmt_path(body, path):
    if not path:
        return None
    out = []
    for b in path:
        t = body.blocks[b]['term']
        if t['t'] == 'call':
            out.append('bb%d:%s' % (b, callee_name(t).split('::')[-1]))
        elif t['t'] == 'switch':
            out.append('bb%d:switch' % b)
    return ' -> '.join(out[-14:])


def effective_owners(ctx, nid, depth=0):
    """The known function(s) a body acts for: a body of a function that the development-time snapshot does not know
    (a newly extracted helper) acts for each of its callers (transitively); everything else acts for itself."""
    from .inline import known_functions
    root = nid.split('::{')[0]
    known = known_functions()
    if not known or root in known or depth > 3 or root.split('::')[0] in ('std', 'core', 'alloc'):
        return [nid]
    callers = ctx.facts.callers(root)
    if not callers:
        return [nid]
    out = []
    for c in callers:
        for x in effective_owners(ctx, c.body.nid, depth + 1):
            if x not in out:
                out.append(x)
    return out


def owned_by(ctx, nid, allowed):
    """-> (ok, name): every known function the body `nid` acts for (see effective_owners) matches one of `allowed`
    (suffix patterns); name is the owner to show in the key when ok, else nid."""
    owners = [o.split('::{')[0] for o in effective_owners(ctx, nid)]
    ok = all(any(o == a or o.endswith('::' + a) or path_matches(o, a) for a in allowed) for o in owners)
    return ok, (owners[0] if ok and owners else nid)


def who_calls(ctx, rule, callee_pat, allowed, floor=1, what=None):
    """K3: every caller of callee_pat is in `allowed` (list of body patterns)."""
    sites = ctx.facts.callers(callee_pat)
    ctx.call_sites += len(sites)
    n = 0
    for s in sites:
        nid = s.body.nid
        owners = effective_owners(ctx, nid)
        ok = all(any(path_matches(o, a) or o.startswith(a + '::{') or path_matches(o.split('::{')[0], a) for a in allowed)
                 for o in owners)
        if ok and owners != [nid]:
            nid = owners[0]
        n += 1
        ctx.check(ok, rule, 'caller:%s<-%s' % (callee_pat, nid),
                  '%s is called from allowed body %s' % (callee_pat, nid),
                  '%s is called from %s, which is not in the allowlist %s%s'
                  % (callee_pat, nid, allowed, (' (' + what + ')') if what else ''),
                  loc=s.loc())
    ctx.floor(rule, 'callers of ' + callee_pat, n, floor)
    return sites


# ------------------------------------------------------------------ K9

def loops_containing(body, bb):
    out = []
    seen = set()
    for e in body.back_edges():
        L = body.natural_loop(e)
        if bb in L:
            key = (e[1], frozenset(L))
            if key not in seen:
                seen.add(key)
                out.append((e[1], L))
    # merge loops with same head
    merged = {}
    for h, L in out:
        merged.setdefault(h, set()).update(L)
    return list(merged.items())


def const_bool_assigns(body, local, blocks):
    """(site, value) for `local = const bool` statements inside `blocks`;
    value None for non-constant assignments."""
    out = []
    for site, s in body.whole_defs(local):
        if site.bb not in blocks:
            continue
        if s.get('s') == 'assign' and s['rv']['r'] == 'use' and 'k' in s['rv']['o']:
            out.append((site, s['rv']['o']['k'].get('int')))
        elif s.get('s') == 'assign' and s['rv']['r'] == 'use':
            p = s['rv']['o'].get('c') or s['rv']['o'].get('m')
            out.append((site, ('copy', tuple(p) if p else None)))
        else:
            out.append((site, None))
    return out


def reach_within(body, starts, L, avoid_edges=(), avoid_nodes=()):
    avoid_edges = set(avoid_edges)
    avoid_nodes = set(avoid_nodes)
    seen = set()
    stack = [s for s in starts if s in L]
    while stack:
        b = stack.pop()
        if b in seen:
            continue
        seen.add(b)
        if b in avoid_nodes:
            continue
        for s in body.succ(b):
            if s not in L or (b, s) in avoid_edges:
                continue
            if s not in seen:
                stack.append(s)
    return seen


def k9_bounded_retry(ctx, body, run_site, rule='K9'):
    """Every way back to the loop head from the Err arm of run_site is guarded
    by a one-shot flag."""
    b = body
    loops = loops_containing(b, run_site.bb)
    results = []
    for head, L in loops:
        backs = [(t, h) for (t, h) in b.back_edges() if h == head and t in L]
        # error edges of the run result
        fail_edges = []
        for sbb in b.switches():
            if sbb not in L:
                continue
            o, edges = b.switch_edges(sbb)
            oc = o
            while oc.kind in ('ref', 'cast', 'place'):
                oc = oc.base
            if oc.kind == 'call' and oc.site == run_site:
                for tb, labs in edges.items():
                    if labs & {'Err', 'fail', 'None', 'false'}:
                        fail_edges.append((sbb, tb))
        if not fail_edges:
            ctx.bad(rule, '%s:loop@%s:no-err-edge' % (b.nid, run_site.callee),
                    'cannot find the Err edge of the run result inside the loop (shape not recognised)',
                    loc=run_site.loc())
            continue
        err_starts = [tb for (_s, tb) in fail_edges]
        # one-shot flags
        guards = []
        flag_desc = []
        for sbb in b.switches():
            if sbb not in L:
                continue
            t = b.blocks[sbb]['term']
            if t.get('dty') != 'bool':
                continue
            o, edges = b.switch_edges(sbb)
            if o.kind not in ('local', 'multi', 'param') or not hasattr(o, 'local'):
                # single-def locals come back as const/copy origins; handle below
                pass
            # find the flag local: walk the discriminant through plain copies
            place = t['d'].get('c') or t['d'].get('m')
            neg = False
            flag = None
            cur = place
            for _ in range(10):
                if cur is None or len(cur) != 1:
                    break
                ds = b.whole_defs(cur[0])
                ins = [d for d in ds if d[0].bb in L]
                if len(ds) == 1 and ds[0][1].get('s') == 'assign' and ds[0][1]['rv']['r'] == 'use' \
                        and not b.locals[cur[0]]['user']:
                    cur = ds[0][1]['rv']['o'].get('c') or ds[0][1]['rv']['o'].get('m')
                    continue
                if len(ds) == 1 and ds[0][1].get('s') == 'assign' and ds[0][1]['rv']['r'] == 'un' \
                        and ds[0][1]['rv']['op'] == 'Not':
                    cur = ds[0][1]['rv']['a'].get('c') or ds[0][1]['rv']['a'].get('m')
                    continue
                flag = cur[0]
                break
            if flag is None or not b.local_ty(flag) == 'bool':
                continue
            assigns = const_bool_assigns(b, flag, L)
            vals = set(v for _s, v in assigns)
            c = None
            clear_sites = []
            derived_from = None
            if len(vals) == 1 and list(vals)[0] in (0, 1):
                c = list(vals)[0]
                clear_sites = [s for s, _v in assigns]
            elif len(vals) == 1 and isinstance(list(vals)[0], tuple):
                # derived flag: flag = copy F' ; F' one-shot and cleared unconditionally each iteration
                src = list(vals)[0][1]
                if src and len(src) == 1:
                    a2 = const_bool_assigns(b, src[0], L)
                    v2 = set(v for _s, v in a2)
                    if len(v2) == 1 and list(v2)[0] in (0, 1):
                        c = list(v2)[0]
                        # the clear must dominate every back edge tail (unconditional per iteration)
                        if all(any(b.site_dominates(s, Site(b, t_)) for s, _v in a2) for (t_, _h) in backs):
                            derived_from = src[0]
                        else:
                            c = None
            if c is None:
                continue
            want = 'false' if c == 1 else 'true'   # edge on which the flag still has its initial value
            for tb, labs in edges.items():
                if labs == {want}:
                    if derived_from is not None:
                        guards.append((sbb, tb))
                        flag_desc.append('%s (copy of one-shot %s, cleared every iteration)'
                                         % (b.local_name(flag), b.local_name(derived_from)))
                    else:
                        # the flag must be flipped on every path from this edge to a back edge
                        r = reach_within(b, [tb], L, avoid_nodes=[s.bb for s in clear_sites])
                        # a clear site in block X: entering X is fine (it flips), leaving not explored
                        if not any(t_ in r and t_ not in [s.bb for s in clear_sites] for (t_, _h) in backs) \
                                and not any((t_ in r and t_ in [s.bb for s in clear_sites]) and False for (t_, _h) in backs):
                            guards.append((sbb, tb))
                            flag_desc.append('%s (one-shot, flipped to %s before the back edge)'
                                             % (b.local_name(flag), 'true' if c else 'false'))
        r = reach_within(b, err_starts, L, avoid_edges=guards)
        unguarded = [(t_, h_) for (t_, h_) in backs if t_ in r]
        key = '%s:retry-loop@%s' % (b.nid, run_site.callee.split('::')[-2] + '::' + run_site.callee.split('::')[-1])
        if unguarded:
            # witness path
            wit = None
            for st in err_starts:
                for (t_, h_) in unguarded:
                    p = b.path_avoiding(t_, avoid_edges=set(guards) | set((a, c_) for a in L for c_ in b.succ(a) if c_ not in L), start=st)
                    if p:
                        wit = fmt_path(b, p)
                        break
                if wit:
                    break
            ctx.bad(rule, key,
                    'the loop around the validation run can be re-entered from the Err arm without passing a one-shot '
                    'guard: an unbounded number of retries is possible (flags seen: %s)' % (flag_desc or 'none'),
                    loc=run_site.loc(), path=wit)
        else:
            ctx.ok(rule, key, 'every way back to the loop head from the Err arm passes a one-shot flag: %s'
                   % sorted(set(flag_desc)), loc=run_site.loc())
        results.append((head, not unguarded, flag_desc))
    return results


# ------------------------------------------------------------------ field writes

def field_writes(body):
    """Yield (site, how, adt, field, place) for every write access to a struct
    field in `body`: direct assignment, call destination, or a `&mut` borrow
    of a place going through the field (potential write by the borrower)."""
    out = []
    for site, s in body.stmts():
        if s['s'] != 'assign':
            continue
        lhs, lo = s['lhs'], s.get('lo') or []
        for i, ow in enumerate(lo):
            if ow and lhs[i + 1].startswith('.'):
                # a write through this field if no later Deref of a shared ref... keep simple
                out.append((site, 'assign', norm(ow), lhs[i + 1][1:], lhs))
        rv = s['rv']
        if rv['r'] in ('ref', 'rawptr') and rv.get('mut', rv['r'] == 'rawptr'):
            p, po = rv['p'], rv.get('po') or []
            for i, ow in enumerate(po):
                if ow and p[i + 1].startswith('.'):
                    out.append((site, 'mutref', norm(ow), p[i + 1][1:], p))
    for site in body.calls():
        t = site.term
        d, do = t['dest'], t.get('desto') or []
        for i, ow in enumerate(do):
            if ow and d[i + 1].startswith('.'):
                out.append((site, 'calldest', norm(ow), d[i + 1][1:], d))
    return out


def writers_of_field(ctx, adt_pat, field=None, candidates=None):
    """All (body, site, how, field) writing a field of ADT adt_pat in the crate."""
    res = []
    needle = adt_pat.split('::')[-1]
    for raw, line in ctx.facts._lines.items():
        if needle not in line:
            continue
        b = ctx.facts.body_raw(raw)
        if b.rec.get('derive'):
            continue
        for site, how, adt, f, place in field_writes(b):
            if path_matches(adt, adt_pat) and (field is None or f == field):
                res.append((b, site, how, f))
    return res


def k3_field_writers(ctx, rule, adt_pat, allowed, fields=None, floor=1, exclude_fields=()):
    ws = writers_of_field(ctx, adt_pat)
    n = 0
    for b, site, how, f in ws:
        if fields is not None and f not in fields:
            continue
        if f in exclude_fields:
            continue
        n += 1
        owners = [o.split('::{')[0] for o in effective_owners(ctx, b.nid)]
        ok = all(any(path_matches(root, a) for a in allowed) for root in owners)
        ctx.check(ok, rule, 'writer:%s.%s<-%s' % (adt_pat.split('::')[-1], f, owners[0] if ok else b.nid),
                  'field %s.%s is written (%s) in allowed body %s' % (adt_pat, f, how, b.nid),
                  'field %s.%s is written (%s) in %s, outside the allowlist %s' % (adt_pat, f, how, b.nid, allowed),
                  loc=site.loc())
    ctx.floor(rule, 'write sites of %s fields' % adt_pat, n, floor)
    return ws


# ------------------------------------------------------------------ guard scopes

def guard_locals(body, acquire_site):
    """Locals that hold the guard returned by acquire_site (following whole-local moves)."""
    gl = acquire_site.term['dest']
    if len(gl) != 1:
        return set()
    locs = {gl[0]}
    changed = True
    while changed:
        changed = False
        for site, s in body.stmts():
            if s['s'] == 'assign' and s['rv']['r'] == 'use' and len(s['lhs']) == 1:
                p = s['rv']['o'].get('m')
                if p and len(p) == 1 and p[0] in locs and s['lhs'][0] not in locs:
                    locs.add(s['lhs'][0])
                    changed = True
    return locs


def guard_releases(body, acquire_site):
    """Sites at which the guard acquired at acquire_site is released: Drop
    terminators of a guard local, and calls that consume (move) it."""
    locs = guard_locals(body, acquire_site)
    out = []
    for i, blk in enumerate(body.blocks):
        if blk['cleanup']:
            continue
        t = blk['term']
        if t['t'] == 'drop' and len(t['p']) == 1 and t['p'][0] in locs:
            out.append(Site(body, i))
        elif t['t'] == 'call':
            for a in t['args']:
                p = a.get('m')
                if p and len(p) == 1 and p[0] in locs:
                    out.append(Site(body, i))
    return out


def held_at(body, acquire_site, site):
    """True iff on every path acquire -> site the guard has not been released."""
    if not body.site_dominates(acquire_site, site):
        return False, None
    for r in guard_releases(body, acquire_site):
        if r.bb == site.bb:
            continue
        if body.can_reach(acquire_site.bb, r.bb) and body.can_reach(r.bb, site.bb):
            return False, r
    return True, None


# ------------------------------------------------------------------ K1 guard tables

class G:
    """A guard: an edge set of the CFG defined by what the switch decides on."""

    def __init__(self, name, call=None, labels=None, field=None, cmp=None, cmp_want=None, recv=None, pred=None, opred=None):
        self.name = name
        self.call = call
        self.labels = set(labels) if labels else set(PASS_LABELS)
        # `x?` labels its edges pass/fail, `match x { Ok(..) / Some(..) .. }` labels them with the variant: the same decision
        if self.labels & {'pass'} and not self.labels & {'Err', 'None', 'fail'}:
            self.labels |= {'Ok', 'Some'} - ({'Some'} if 'None' in (labels or ()) else set())
        if self.labels & {'Ok'} and 'Err' not in self.labels:
            self.labels |= {'pass'}
        if self.labels == {'Err'}:
            self.labels |= {'fail'}
        if self.labels == {'fail'}:
            self.labels |= {'Err'}
        self.field = field
        self.cmp = cmp            # (patA, patB): comparison between values whose descriptions contain these
        self.cmp_want = set(cmp_want) if cmp_want else {'Equal'}
        self.recv = recv
        self.pred = pred
        self.opred = opred

    # -- one level of helper inlining -------------------------------------------------
    # `if key_matches(cert, tal) {..}` with `fn key_matches(..) -> bool { cert.key() == tal.key() }` decides the same
    # thing as the inlined comparison. A switch on the result of a crate-local helper is accepted as this guard when
    # every path of the helper that produces a given result class (true/false, Ok/Err, Some/None) has passed the guard
    # inside the helper (or the helper returns the guarded expression itself).
    _CLASS = (('const(1)', {'true'}), ('const(0)', {'false'}), ('const(true)', {'true'}), ('const(false)', {'false'}),
              ('Result::Ok(', {'Ok', 'pass'}), ('Result::Err(', {'Err', 'fail'}), ('Option::Some(', {'Some', 'pass'}),
              ('Option::None', {'None', 'fail'}))

    def _helper_pass_labels(self, body, o, depth=0):
        from .tables import enumerate_paths, describe
        facts = getattr(body, 'facts', None)
        if facts is None or depth > 1:
            return None
        oc = o
        for _ in range(12):
            if oc is None:
                return None
            if oc.kind in ('ref', 'cast'):
                oc = oc.base
            elif oc.kind == 'place' and all(p == '*' or p.startswith('@') or p == '.0' for p in oc.proj):
                oc = oc.base
            else:
                break
        if oc is None or oc.kind != 'call':
            return None
        nm = norm(oc.callee)
        if nm.split('::')[0] in ('std', 'core', 'alloc', 'rpki', 'bytes', 'chrono', 'tokio', 'hyper', 'log'):
            return None
        hbs = facts.find(nm)
        if len(hbs) != 1 or hbs[0].nid == body.nid:
            return None
        hb = hbs[0]
        if len(hb.blocks) > 400:
            return None
        h_edges, h_sws = self._edges(hb, depth + 1)
        pass_set = set(h_edges)
        if not h_sws and len(hb.switches()) > 0 and self.call is None:
            # the helper branches, but never on this guard: it cannot stand for it
            return None
        try:
            paths = enumerate_paths(hb, facts, max_paths=400)
        except Exception:
            return None
        if not paths:
            return None
        by_class = {}
        rty = hb.rec['locals'][0]['ty']
        if rty == 'bool':
            type_classes = [frozenset({'true'}), frozenset({'false'})]
        elif rty.startswith('std::option::Option<') or rty.startswith('core::option::Option<'):
            type_classes = [frozenset({'Some', 'pass'}), frozenset({'None', 'fail'})]
        elif rty.startswith('std::result::Result<') or rty.startswith('core::result::Result<'):
            type_classes = [frozenset({'Ok', 'pass'}), frozenset({'Err', 'fail'})]
        else:
            return None
        for p in paths:
            if p.kind != 'return':
                continue
            oc_desc = p.outcome or ''
            blocks = p.blocks
            passed = any((blocks[i], blocks[i + 1]) in pass_set for i in range(len(blocks) - 1))
            cls = None
            for pref, labs in self._CLASS:
                if oc_desc.startswith(pref):
                    cls = frozenset(labs)
                    break
            if cls is not None:
                by_class.setdefault(cls, []).append(passed)
                continue
            # the helper returns the guarded expression itself (bool), or converts it (`check(..).ok()`)
            direct = self._direct(oc_desc) if rty == 'bool' else None
            if direct is not None:
                by_class.setdefault(frozenset(direct), []).append(True)
                by_class.setdefault(frozenset({'true', 'false'} - set(direct)), []).append(passed)
                continue
            conv = re.match(r'^call:Result::ok\((.*)\)$', oc_desc)
            if conv and self.call is not None and rty.startswith(('std::option', 'core::option')):
                pats = self.call if isinstance(self.call, (list, tuple)) else [self.call]
                names = [pp[3:].rstrip('$').split('::')[-1] if pp.startswith('re:') else pp.split('::')[-1] for pp in pats]
                inner = conv.group(1)
                if any(inner.startswith('call:') and nm2 in inner.split('(')[0] for nm2 in names) and (self.labels & {'Ok', 'pass'}):
                    by_class.setdefault(type_classes[0], []).append(True)      # Some <=> the guarded call was Ok
                    by_class.setdefault(type_classes[1], []).append(passed)
                    continue
            # value not classified on this path: it may fall into either class
            for tc in type_classes:
                by_class.setdefault(tc, []).append(passed)
        good = set()
        for cls, flags in by_class.items():
            if flags and all(flags):
                good |= set(cls)
        if not good or (not h_sws and not any(True in f for f in by_class.values())):
            return None
        return good

    def _direct(self, desc):
        """Labels of a bool helper result under which the guard holds, when the helper returns the guarded expression."""
        m = re.match(r'^(Eq|Ne)\((.*)\)$', desc)
        if m is None:
            m2 = re.match(r'^call:PartialEq(?: for [^>]*)?>?::(eq|ne)\((.*)\)$', desc)
            if m2:
                m = re.match(r'^(Eq|Ne)\((.*)\)$', '%s(%s)' % ('Eq' if m2.group(1) == 'eq' else 'Ne', m2.group(2)))
        if self.cmp is not None and m and all(pt in m.group(2) for pt in self.cmp):
            eq_wanted = self.cmp_want == {'Equal'}
            if m.group(1) == 'Eq':
                return {'true'} if eq_wanted else {'false'}
            return {'false'} if eq_wanted else {'true'}
        if self.field is not None and (desc.endswith('.' + self.field) or desc.endswith('.' + self.field + ')')) \
                and self.labels <= {'true', 'false'}:
            return set(self.labels)
        if self.call is not None:
            pats = self.call if isinstance(self.call, (list, tuple)) else [self.call]
            names = [pp[3:].rstrip('$') if pp.startswith('re:') else pp.split('::')[-1] for pp in pats]
            mm = re.match(r'^call:(Result|Option)::(is_ok|is_some|is_err|is_none)\((.*)\)$', desc)
            if mm and any(nm2.split('::')[-1] in mm.group(3) for nm2 in names):
                positive = mm.group(2) in ('is_ok', 'is_some')
                wants_pos = bool(self.labels & {'Ok', 'Some', 'pass', 'true'})
                return {'true'} if positive == wants_pos else {'false'}
            if any(desc.startswith('call:') and nm2.split('::')[-1] in desc.split('(')[0] for nm2 in names) and self.labels <= {'true', 'false'}:
                return set(self.labels)
        return None

    def edges(self, body):
        return self._edges(body, 0)

    def _edges(self, body, depth):
        out, sws = self._edges_direct(body)
        if depth > 1:
            return out, sws
        # helper inlining for switches that did not match directly
        for sbb in body.switches():
            if sbb in sws:
                continue
            o, edges = body.switch_edges(sbb)
            if o is None:
                continue
            good = self._helper_pass_labels(body, o, depth)
            if not good:
                continue
            sws.append(sbb)
            for tb, labs in edges.items():
                if labs and {str(x) for x in labs} <= good:
                    out.append((sbb, tb))
        return out, sws

    def _edges_direct(self, body):
        from .tables import order_edges, describe
        out = []
        sws = []
        for sbb in body.switches():
            o, edges = body.switch_edges(sbb)
            if self.call is not None:
                c = origin_is_call(o, self.call)
                if c is None:
                    continue
                if self.recv is not None and self.recv not in arg_path(c.site, 0):
                    continue
                if self.pred is not None and not self.pred(c):
                    continue
                sws.append(sbb)
                for tb, labs in edges.items():
                    if labs and labs <= self.labels:
                        out.append((sbb, tb))
            elif self.opred is not None:
                if not self.opred(o):
                    continue
                sws.append(sbb)
                for tb, labs in edges.items():
                    if labs and labs <= self.labels:
                        out.append((sbb, tb))
            elif self.field is not None:
                if not o.path().endswith('.' + self.field):
                    continue
                sws.append(sbb)
                for tb, labs in edges.items():
                    if labs and labs <= self.labels:
                        out.append((sbb, tb))
            elif self.cmp is not None:
                oe = order_edges(o, edges)
                if oe is None:
                    continue
                var, ed = oe
                if not all(p in var for p in self.cmp):
                    continue
                sws.append(sbb)
                for tb, labs in ed.items():
                    if labs and labs <= self.cmp_want:
                        out.append((sbb, tb))
        return out, sws


class AnyG(G):
    """Disjunction of guards: an edge passes if it is a pass edge of any member (e.g. `!(filter && dubious)`)."""

    def __init__(self, name, members):
        G.__init__(self, name)
        self.members = members

    def _edges_direct(self, body):
        out, sws = [], []
        for g in self.members:
            e, sw = g._edges_direct(body)
            out += e
            sws += [x for x in sw if x not in sws]
        return out, sws

    def _direct(self, desc):
        for g in self.members:
            d = g._direct(desc)
            if d is not None:
                return d
        return None


def require_guards(ctx, rule, body, sinks, guards, what, floor=1):
    """Every sink site is reachable only through a pass edge of every guard."""
    n = 0
    for g in guards:
        edges, sws = g.edges(body)
        if not sws:
            ctx.bad(rule, '%s:guard-missing:%s' % (body.nid, g.name),
                    'guard `%s` not found in %s: no branch decides on it any more (%s)' % (g.name, body.nid, what))
            continue
        for s in sinks:
            n += 1
            ctx.call_sites += 1
            p = body.path_avoiding(s.bb, avoid_edges=edges)
            nm = s.callee.split('::')[-1] if s.is_term and s.term['t'] == 'call' else 'site'
            ctx.check(p is None, rule, '%s:%s<=%s' % (body.nid, nm, g.name),
                      '%s at %s is reachable only through the passing edge of `%s`' % (nm, s.loc(), g.name),
                      '%s at %s can be reached without passing `%s` (%s)' % (nm, s.loc(), g.name, what),
                      loc=s.loc(), path=fmt_path(body, p))
    return n


def arg_desc(site, i):
    from .tables import describe
    return describe(site.body.origin_of_operand(site.term['args'][i]))


def agg_sites(body, adt_pat, variant=None):
    out = []
    for site, s in body.stmts():
        if s['s'] == 'assign' and s['rv']['r'] == 'agg' and s['rv'].get('kind') == 'adt' \
                and path_matches(norm(s['rv']['adt']), adt_pat) and (variant is None or s['rv'].get('variant') == variant):
            out.append(site)
    return out


def user_local_of(body, op):
    """Follow a move/copy/ref chain of single-def temporaries to a user-named local."""
    p = op.get('m') or op.get('c')
    for _ in range(8):
        if p is None:
            return None
        if body.locals[p[0]]['user'] and all(x == '*' for x in p[1:]):
            return body.local_name(p[0])
        if len(p) != 1 and not all(x == '*' for x in p[1:]):
            return None
        ds = body.whole_defs(p[0])
        if len(ds) != 1 or ds[0][1].get('s') != 'assign':
            return None
        rv = ds[0][1]['rv']
        if rv['r'] == 'use':
            p = rv['o'].get('m') or rv['o'].get('c')
        elif rv['r'] == 'ref':
            p = rv['p']
        else:
            return None
    return None
