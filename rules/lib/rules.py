"""Generic rule helpers shared by the per-property rule tables."""
from .facts import (Site, Origin, callee_matches, callee_name, norm, path_matches,
                    guard_edges, origin_is_call, PASS_LABELS, FAIL_LABELS)

LOCK_ACQUIRE = [
    'utils::sync::RwLock::read', 'utils::sync::RwLock::write', 'utils::sync::Mutex::lock',
    'std::sync::RwLock::read', 'std::sync::RwLock::write', 'std::sync::Mutex::lock',
    'payload::history::SharedHistory::read', 'payload::history::SharedHistory::write',
]


def strip_origin(o, through_locks=True, maxd=40):
    """Follow refs/casts/transparent calls (and lock acquisitions) to the
    underlying storage origin."""
    d = 0
    while o is not None and d < maxd:
        d += 1
        if o.kind in ('ref', 'cast'):
            o = o.base
            continue
        if o.kind == 'call' and through_locks and callee_matches(o.term, LOCK_ACQUIRE) and o.args:
            o = o.args[0]
            continue
        if o.kind == 'call' and callee_matches(o.term, ['Result::unwrap', 'Option::unwrap', 'Result::expect']) and o.args:
            o = o.args[0]
            continue
        break
    return o


def arg_path(site, i=0, through_locks=True):
    """Access path string of the i-th argument of a call site."""
    b = site.body
    o = b.origin_of_operand(site.term['args'][i])
    o = strip_origin(o, through_locks)
    if o.kind == 'place':
        base = strip_origin(o.base, through_locks)
        return Origin('place', base=base, proj=o.proj).path()
    return o.path()


def arg_origin(site, i=0):
    return site.body.origin_of_operand(site.term['args'][i])


def calls_on_field(body, callee_pat, field):
    """Call sites matching callee_pat whose receiver's access path ends in .field"""
    out = []
    for s in body.calls(callee_pat):
        if not s.term['args']:
            continue
        p = arg_path(s, 0)
        if p.endswith('.' + field) or ('.' + field + '.') in p or ('.' + field + '@') in p:
            out.append(s)
    return out


def dominated_by_any(body, site, doms):
    return any(body.site_dominates(d, site) for d in doms)


def edges_from_call(body, call_pat, labels, recv_field=None):
    """Edges of switches deciding on the result of calls matching call_pat."""
    def pred(o):
        c = origin_is_call(o, call_pat)
        if c is None:
            return False
        if recv_field is not None:
            p = arg_path(c.site, 0)
            return p.endswith('.' + recv_field)
        return True
    return guard_edges(body, pred, labels)


def must_pass_edges(body, site_bb, pass_edges, all_guard_edges_other):
    """True iff every path entry -> site_bb uses one of pass_edges, i.e. the
    block is unreachable once the pass edges are removed."""
    p = body.path_avoiding(site_bb, avoid_edges=pass_edges)
    return p is None, p


def fmt_path(body, path):
    if not path:
        return None
    out = []
    for b in path:
        t = body.blocks[b]['term']
        if t['t'] == 'call':
            out.append('bb%d:%s' % (b, callee_name(t).split('::')[-1]))
        elif t['t'] == 'switch':
            out.append('bb%d:switch' % b)
    return ' -> '.join(out[-14:])


def who_calls(ctx, rule, callee_pat, allowed, floor=1, what=None):
    """K3: every caller of callee_pat is in `allowed` (list of body patterns)."""
    sites = ctx.facts.callers(callee_pat)
    ctx.call_sites += len(sites)
    n = 0
    for s in sites:
        nid = s.body.nid
        ok = any(path_matches(nid, a) or nid.startswith(a + '::{') or
                 any(path_matches(nid.split('::{')[0], a) for _ in [0]) for a in allowed)
        n += 1
        ctx.check(ok, rule, 'caller:%s<-%s' % (callee_pat, nid),
                  '%s is called from allowed body %s' % (callee_pat, nid),
                  '%s is called from %s, which is not in the allowlist %s%s'
                  % (callee_pat, nid, allowed, (' (' + what + ')') if what else ''),
                  loc=s.loc())
    ctx.floor(rule, 'callers of ' + callee_pat, n, floor)
    return sites
