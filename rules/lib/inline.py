"""Shape normalisation before the rules run: inline functions the rule tables have never seen.

The rule instances were written against the function set of the tree they were developed on
(selftest/known_fns.json: the names of all crate functions, a snapshot used for NOTHING but this
preprocessing). A refactoring that extracts a few lines into a new private helper, or wraps a check in
a new small function, changes the shape of an anchored body although behaviour is the same. So, when a
body calls a crate-local function whose name is not in that snapshot, the callee's MIR is spliced into
the caller (classic inlining on the fact representation: blocks and locals renumbered, parameters
assigned from the arguments, `return` replaced by an assignment to the call's destination and a jump to
its continuation). Guards, dominance, provenance and path tables then see the same shape as before the
extraction. A breaking change that hides behind a new helper is inlined as well and is judged like
inline code.

Not inlined: functions known to the snapshot (the rules may name them), recursive calls, closures,
bodies with more than MAX_BLOCKS blocks, more than MAX_INLINES splices per body.
"""
import copy
import json
import os

MAX_BLOCKS = 400
MAX_INLINES = 12
PLACE_KEYS = ('m', 'c', 'lhs', 'p', 'dest')
TARGET_KEYS = ('to', 'otherwise', 'unwind', 'drop', 'false_edge')

_KNOWN = [None]


_SNAP = [None]


def known_snapshot():
    if _SNAP[0] is None:
        p = os.path.join(os.path.dirname(os.path.dirname(os.path.dirname(os.path.abspath(__file__)))), 'selftest', 'known_fns.json')
        try:
            _SNAP[0] = json.load(open(p))
        except (OSError, ValueError):
            _SNAP[0] = {}
    return _SNAP[0]


def known_functions():
    if _KNOWN[0] is None:
        _KNOWN[0] = set(known_snapshot().get('functions', []))
    return _KNOWN[0]


def _remap(x, lmap, bmap, in_term=False):
    """Deep copy of a stmt/term JSON value with locals and block numbers renumbered."""
    if isinstance(x, dict):
        out = {}
        for k, v in x.items():
            if k in PLACE_KEYS and isinstance(v, list) and v and isinstance(v[0], int):
                out[k] = [lmap(v[0])] + list(v[1:])
            elif k == 'l' and isinstance(v, int):
                out[k] = lmap(v)
            elif k in TARGET_KEYS and isinstance(v, int) and not isinstance(v, bool):
                out[k] = bmap(v)
            elif k == 'targets' and isinstance(v, list):
                out[k] = [[val, bmap(tb)] for val, tb in v]
            else:
                out[k] = _remap(v, lmap, bmap)
        return out
    if isinstance(x, list):
        return [_remap(v, lmap, bmap) for v in x]
    return x


def inline_unknown_helpers(rec, lookup, norm):
    """rec: body record (dict). lookup(nid) -> record of the unique crate body with that normalised id or None.
    Returns (new_rec, [inlined nids]) or (rec, []) when nothing was inlined."""
    known = known_functions()
    if not known:
        return rec, []
    self_nid = norm(rec['id'])
    done = []
    new = None
    guard = 0
    while guard < MAX_INLINES:
        guard += 1
        cur = new if new is not None else rec
        hit = None
        for bi, blk in enumerate(cur['blocks']):
            t = blk['term']
            if t.get('t') != 'call' or blk.get('cleanup'):
                continue
            f = t['fn']
            name = f.get('resolved') or f.get('def')
            if not name or not f.get('local', True) and not f.get('resolved'):
                pass
            nid = norm(name) if name else None
            if not nid or nid in known or nid == self_nid or '{closure' in nid or nid in done and done.count(nid) > 3:
                continue
            if nid.split('::')[0] in ('std', 'core', 'alloc'):
                continue
            callee = lookup(nid)
            if callee is None or len(callee['blocks']) > MAX_BLOCKS or callee.get('coroutine'):
                continue
            if t.get('to') is None:
                continue
            hit = (bi, nid, callee)
            break
        if hit is None:
            break
        if new is None:
            new = copy.deepcopy(rec)
        bi, nid, callee = hit
        _splice(new, bi, callee)
        done.append(nid)
    if new is None:
        return rec, []
    new['inlined'] = done
    return new, done


def _splice(rec, bi, callee):
    blocks = rec['blocks']
    call = blocks[bi]['term']
    lbase = len(rec['locals'])
    bbase = len(blocks)
    rec['locals'] = rec['locals'] + [dict(l) for l in callee['locals']]
    for d in callee.get('debug', []):
        dd = dict(d)
        dd['p'] = [lbase + d['p'][0]] + list(d['p'][1:])
        dd.pop('arg', None)
        rec['debug'] = rec['debug'] + [dd]

    def lmap(l):
        return lbase + l

    def bmap(b):
        return bbase + b
    cont = call['to']
    dest = call['dest']
    line = (call.get('span') or {}).get('line')
    # parameters <- arguments
    for k, a in enumerate(call['args']):
        blocks[bi]['stmts'].append({'s': 'assign', 'lhs': [lbase + 1 + k], 'lo': [], 'rv': {'r': 'use', 'o': a},
                                    'line': line, 'exp': False})
    blocks[bi]['term'] = {'t': 'goto', 'to': bbase, 'inlined_call': call['fn'].get('def')}
    for blk in callee['blocks']:
        nb = {'cleanup': blk['cleanup'], 'stmts': _remap(blk['stmts'], lmap, bmap), 'term': _remap(blk['term'], lmap, bmap)}
        t = nb['term']
        if t.get('t') == 'return':
            nb['stmts'].append({'s': 'assign', 'lhs': list(dest), 'lo': call.get('desto', []),
                                'rv': {'r': 'use', 'o': {'m': [lbase + 0]}}, 'line': line, 'exp': False})
            nb['term'] = {'t': 'goto', 'to': cont}
        elif t.get('t') in ('resume', 'abort') and isinstance(call.get('unwind'), int):
            nb['term'] = {'t': 'goto', 'to': call['unwind']}
        blocks.append(nb)
