"""Thorough tier: the same static rules, explored further.

 A. cfg universes: the rules of the property are re-run on the MIR of the other feature sets the crate can be built
    with (--no-default-features, --features rta), because code behind a cfg is invisible to the default build.
    A violation there is a violation (key suffixed @<universe>).
 B. self-validation: every mutant in selftest/mutants/<id>.json and every confirmed seeded change of the property
    (seeded/*/patch.diff) is applied to a scratch COPY of /repo's current tree (never to /repo), the facts are rebuilt
    for that copy and the rules must report a violation that is not reported on the unchanged tree. The outcome is
    recorded in the evidence (mutants_detected / mutants_total); a missed or stale mutant is a weakness of the checker,
    not of routinator, so it never produces a VIOLATION line.
"""
import glob
import json
import os
import re
import shutil
import subprocess
import sys

from .facts import Facts
from .report import Ctx, Skip, VERIF

CACHE = os.path.join(VERIF, '.cache')
OTHER_UNIVERSES = ('nodefault', 'rta')


def _run_once(pid, mod, facts, repo, positive, tier):
    c = Ctx(pid, facts, tier, 0)
    c.repo = repo
    c.positive = positive
    for rule in mod.RULES:
        n0 = len(c.obligations)
        try:
            rule(c)
        except Skip:
            pass
        except Exception as e:      # a rule that cannot cope with the shape of the code fails closed, it does not crash
            import traceback
            sys.stderr.write(traceback.format_exc())
            c.bad('shape', 'rule-not-applicable:%s' % rule.__name__,
                  'rule %s could not be evaluated on this tree (%s: %s): the code it analyses no longer has a shape the rule '
                  'understands' % (rule.__name__, type(e).__name__, str(e)[:120]))
        for o in c.obligations[n0:]:
            o['fn'] = rule.__name__
    return c


def merge_runs(a, b):
    """Two sound analyses of the same program (plain bodies / bodies with new helper functions inlined). Every rule
    function is a self-contained check of some clauses and is sound on either representation, so per rule function the
    run with fewer violated obligations is reported (ties: the plain run)."""
    fns = []
    for o in a.obligations + b.obligations:
        if o.get('fn') not in fns:
            fns.append(o.get('fn'))
    out = []
    picked = {}
    for fn in fns:
        oa = [o for o in a.obligations if o.get('fn') == fn]
        ob = [o for o in b.obligations if o.get('fn') == fn]
        bad_a = {o['key'] for o in oa if not o['ok']}
        bad_b = {o['key'] for o in ob if not o['ok']}
        ok_a = {o['key'] for o in oa if o['ok']} - bad_a
        ok_b = {o['key'] for o in ob if o['ok']} - bad_b
        # four sound verdicts for the clauses of this rule function: either run as it is, or a run minus the
        # obligations the other run proves (same key = same clause at the same site)
        cands = [('plain', oa, bad_a)]
        if ob:
            cands.append(('inlined', ob, bad_b))
            cands.append(('plain minus proven by inlined', [o for o in oa if o['ok'] or o['key'] not in ok_b], bad_a - ok_b))
            cands.append(('inlined minus proven by plain', [o for o in ob if o['ok'] or o['key'] not in ok_a], bad_b - ok_a))
        if not oa and ob:
            cands = cands[1:2]
        # fewest violations; among equally small non-empty verdicts prefer one that names a construct of the program
        # over one that only says "shape not recognised" (keys starting with shape/)
        def rank(c):
            shape = sum(1 for k in c[2] if ':shape/' in k or k.split(':', 1)[-1].startswith('shape/'))
            return (len(c[2]) > 0, shape == len(c[2]) and len(c[2]) > 0, len(c[2]))
        name, obs, bad = min(cands, key=rank)
        out += obs
        picked[fn] = name
    a.obligations = out
    a.bodies |= b.bodies
    a.notes.append('shape normalisation: %d body/bodies had new (unknown) helper functions inlined for a second run; per rule '
                   'function the run with fewer violations is reported (both are sound analyses of the same program): %s'
                   % (len(b.facts.inlined_bodies), picked))
    a.extra['inlined'] = b.facts.inlined_bodies
    return a


def run_rules(pid, mod, fact, repo, positive, tier='quick'):
    facts = Facts(fact)
    c = _run_once(pid, mod, facts, repo, positive, tier)
    if any(not o['ok'] for o in c.obligations) and facts.unknown_functions():
        f2 = Facts(fact, inline=True)
        c2 = _run_once(pid, mod, f2, repo, positive, tier)
        if f2.inlined_bodies:
            c = merge_runs(c, c2)
    return c


def scratch_copy(repo, tag):
    root = os.path.join(CACHE, 'scratch', tag)
    shutil.rmtree(root, ignore_errors=True)
    dst = os.path.join(root, 'repo')
    shutil.copytree(repo, dst, ignore=shutil.ignore_patterns('target', '.git', 'fuzz'), symlinks=True)
    return root, dst


def apply_mutant(dst, spec):
    if 'edits' in spec:
        return all(apply_mutant(dst, dict(e, file=e.get('file', spec.get('file')))) for e in spec['edits'])
    p = os.path.join(dst, spec['file'])
    try:
        s = open(p).read()
    except OSError:
        return False
    old, new = spec['old'], spec['new']
    n = s.count(old)
    if n == 0:
        return False
    nth = spec.get('nth')
    if nth is None:
        if n != 1:
            return False
        s = s.replace(old, new)
    else:
        idx = -1
        for _ in range(nth + 1):
            idx = s.find(old, idx + 1)
            if idx < 0:
                return False
        s = s[:idx] + new + s[idx + len(old):]
    open(p, 'w').write(s)
    return True


def apply_patch(dst, patch):
    r = subprocess.run(['patch', '-p1', '-s', '-f', '--no-backup-if-mismatch', '-i', patch], cwd=dst,
                       capture_output=True, text=True)
    return r.returncode == 0


def mutants_for(pid):
    out = []
    f = os.path.join(VERIF, 'selftest', 'mutants', pid + '.json')
    if os.path.exists(f):
        for m in json.load(open(f)):
            m = dict(m)
            m['kind'] = 'mutant'
            out.append(m)
    for meta in sorted(glob.glob(os.path.join(VERIF, 'seeded', '*', 'meta.json'))):
        d = json.load(open(meta))
        if d.get('property') == pid or pid in d.get('also', []):
            if d.get('neutralised'):
                continue
            out.append(dict(kind='seed', name=os.path.basename(os.path.dirname(meta)),
                            patch=os.path.join(os.path.dirname(meta), 'patch.diff'), expect=d.get('expect')))
    return out


def run_mutant(pid, mod, repo, m, ensure_facts, positive, baseline, tag):
    root, dst = scratch_copy(repo, tag)
    res = dict(name=m['name'], kind=m['kind'], applied=False, built=False, detected=False, keys=[])
    try:
        ok = apply_patch(dst, m['patch']) if m['kind'] == 'seed' else apply_mutant(dst, m)
        if not ok:
            return res
        res['applied'] = True
        fact = ensure_facts('default', repo=dst, tag='mut')
        if not fact:
            return res
        res['built'] = True
        c = run_rules(pid, mod, fact, dst, positive)
        new = sorted(set(o['key'] for o in c.obligations if not o['ok']) - baseline)
        if m.get('expect'):
            hit = [k for k in new if re.search(m['expect'], k)]
        else:
            hit = new
        res['detected'] = bool(hit)
        res['keys'] = (hit or new)[:4]
        shutil.rmtree(os.path.dirname(fact), ignore_errors=True)
    finally:
        shutil.rmtree(root, ignore_errors=True)
    return res


def run(ctx, mod, ensure_facts, only=None):
    pid = ctx.pid
    repo = ctx.repo
    # A. other cfg universes
    uni = {}
    for u in OTHER_UNIVERSES:
        fact = ensure_facts(u)
        c = run_rules(pid, mod, fact, repo, ctx.positive)
        bad = [o for o in c.obligations if not o['ok']]
        uni[u] = dict(obligations=len(c.obligations), violated=len(bad), bodies=len(c.bodies))
        base_bad = set(o['key'] for o in ctx.obligations if not o['ok'])
        for o in bad:
            if o['key'] in base_bad:
                continue        # same violation as in the default universe: reported once
            o = dict(o)
            o['key'] = o['key'] + '@' + u
            o['what'] = '[cfg universe %s] %s' % (u, o['what'])
            ctx.obligations.append(o)
        ctx.obligations.append(dict(rule='universe', key='%s/universe:%s' % (pid, u), ok=True,
                                    what='rules re-run on the %s build: %d obligations' % (u, len(c.obligations)), loc=None))
        ctx.bodies |= c.bodies
    ctx.extra['cfg_universes'] = uni
    # B. self-validation on scratch copies
    baseline = set(o['key'] for o in ctx.obligations if not o['ok'])
    results = []
    for m in mutants_for(pid):
        if only and not any(x in m['name'] for x in only):
            continue
        r = run_mutant(pid, mod, repo, m, ensure_facts, ctx.positive, baseline, 'mut-%s-%d' % (pid, os.getpid()))
        results.append(r)
        state = 'detected' if r['detected'] else ('MISSED' if r['built'] else ('does-not-build' if r['applied'] else 'stale'))
        sys.stderr.write('[mutant] %s %s: %s %s\n' % (pid, r['name'], state, r['keys'][:1]))
    ctx.extra['mutants'] = results
    ctx.extra['mutants_total'] = len(results)
    ctx.extra['mutants_detected'] = sum(1 for r in results if r['detected'])
    for r in results:
        if not r['detected']:
            ctx.note('self-validation: mutant %s was not detected (%s)' % (
                r['name'], 'built, rules silent' if r['built'] else ('did not build' if r['applied'] else 'no longer applies')))
