"""Fact base produced by the rfacts driver: bodies (MIR as built), ADTs, impls.

Everything here is a *static* analysis over the fact file; no routinator code
is executed.
"""
import json
import re
import os
from functools import lru_cache

# --------------------------------------------------------------------- names


# Functions renamed since the development-time snapshot (new normalised name -> name the rule tables use).
# Filled by Facts.__init__ (see Facts._detect_renames); empty on the tree the rules were written for.
_RENAME = {}


def norm(s):
    """Normalise a def path / type string: drop generic argument lists and
    lifetimes, keep `<X as Trait>::m` qualified forms (normalised inside)."""
    if s is None:
        return None
    r = _norm(s)
    if _RENAME:
        if r in _RENAME:
            return _RENAME[r]
        i = r.find('::{')
        if i > 0 and r[:i] in _RENAME:
            return _RENAME[r[:i]] + r[i:]
    return r


@lru_cache(maxsize=200000)
def _norm(s):
    out = []
    i = 0
    n = len(s)
    while i < n:
        c = s[i]
        if c == '<':
            # find the matching '>'
            depth = 0
            j = i
            while j < n:
                if s[j] == '<':
                    depth += 1
                elif s[j] == '>' and (j == 0 or s[j - 1] != '-'):
                    depth -= 1
                    if depth == 0:
                        break
                j += 1
            inner = s[i + 1:j]
            prev = ''.join(out)
            if inner.startswith('impl '):
                # `core::str::<impl str>::len`
                out.append('<' + _norm(inner) + '>')
            elif prev.endswith('::'):
                # turbofish: drop `::<..>`
                out = [prev[:-2]]
            elif prev and (prev[-1].isalnum() or prev[-1] == '_'):
                pass  # generic args after a type name: drop
            else:
                out.append('<' + _norm(inner) + '>')
            i = j + 1
            continue
        out.append(c)
        i += 1
    r = ''.join(out)
    r = re.sub(r"&'[A-Za-z_][A-Za-z_0-9]* ", '&', r)
    r = re.sub(r"'[A-Za-z_][A-Za-z_0-9]*,? ?", '', r) if "'" in r else r
    return r


def path_matches(name, pat):
    """`pat` is a path suffix like 'Cert::validate_ta' (segment-aligned), or a
    regex if it starts with 're:'."""
    if name is None:
        return False
    if pat.startswith('re:'):
        return re.search(pat[3:], name) is not None
    if name == pat:
        return True
    if name.endswith('::' + pat):
        return True
    # qualified `<X as T>::m`: allow pat 'T::m' to match and 'X::m' to match
    m = re.match(r'^<(.+) as (.+)>::(.+)$', name)
    if m:
        x, t, meth = m.groups()
        for cand in (x + '::' + meth, t + '::' + meth):
            if cand == pat or cand.endswith('::' + pat):
                return True
    return False


# --------------------------------------------------------------------- places

def is_local(place):
    return len(place) == 1


def place_str(body, place):
    base = body.local_name(place[0])
    s = base
    for p in place[1:]:
        if p == '*':
            s = '(*' + s + ')'
        else:
            s += p
    return s


class Site:
    """A program point: (bb, idx); idx == len(stmts) is the terminator."""
    __slots__ = ('body', 'bb', 'idx')

    def __init__(self, body, bb, idx=None):
        self.body = body
        self.bb = bb
        self.idx = len(body.blocks[bb]['stmts']) if idx is None else idx

    @property
    def is_term(self):
        return self.idx == len(self.body.blocks[self.bb]['stmts'])

    @property
    def term(self):
        return self.body.blocks[self.bb]['term']

    @property
    def stmt(self):
        return self.body.blocks[self.bb]['stmts'][self.idx]

    @property
    def line(self):
        if self.is_term:
            sp = self.term.get('span')
            return sp['line'] if sp else None
        return self.stmt.get('line')

    @property
    def callee(self):
        return callee_name(self.term)

    def loc(self):
        f = self.body.file
        return '%s:%s' % (f, self.line)

    def __repr__(self):
        if self.is_term and self.term['t'] == 'call':
            return '<call %s @bb%d %s>' % (self.callee, self.bb, self.loc())
        return '<site bb%d.%d %s>' % (self.bb, self.idx, self.loc())

    def key(self):
        return (self.bb, self.idx)

    def __eq__(self, o):
        return isinstance(o, Site) and self.body is o.body and self.key() == o.key()

    def __hash__(self):
        return hash((id(self.body),) + self.key())


def callee_names(term):
    f = term['fn']
    out = []
    for k in ('resolved', 'def', 'full'):
        v = f.get(k)
        if v:
            out.append(norm(v))
    return out


def callee_name(term):
    f = term.get('fn') or {}
    return norm(f.get('resolved') or f.get('def') or '<indirect>')


def callee_matches(term, pat):
    if term['t'] not in ('call', 'tailcall'):
        return False
    if isinstance(pat, (list, tuple, set, frozenset)):
        return any(callee_matches(term, p) for p in pat)
    for nm in callee_names(term):
        if path_matches(nm, pat):
            return True
    return False


# --------------------------------------------------------------------- origins

class Origin:
    """Where a value comes from inside one body (backward slice result)."""

    def __init__(self, kind, **kw):
        self.kind = kind
        self.__dict__.update(kw)

    def __repr__(self):
        return self.path()

    def path(self):
        k = self.kind
        if k == 'param':
            return self.name
        if k == 'local':
            return self.name
        if k == 'const':
            return 'const(%s)' % (self.value,)
        if k == 'call':
            return 'call(%s@bb%d)' % (self.callee, self.site.bb)
        if k == 'place':
            s = self.base.path()
            for p in self.proj:
                if p == '*':
                    continue
                s += p
            return s
        if k == 'bin':
            return '%s(%s,%s)' % (self.op, self.a.path(), self.b.path())
        if k == 'un':
            return '%s(%s)' % (self.op, self.a.path())
        if k == 'multi':
            return 'phi(' + '|'.join(sorted(set(o.path() for o in self.alts))) + ')'
        if k == 'agg':
            return 'agg(%s)' % self.what
        if k == 'ref':
            return self.base.path()
        if k == 'cast':
            return self.base.path()
        return k

    def core(self):
        """Strip refs, casts, and `@Ok.0`-style payload projections."""
        o = self
        while True:
            if o.kind in ('ref', 'cast'):
                o = o.base
                continue
            if o.kind == 'place':
                proj = [p for p in o.proj if p != '*']
                if all(p.startswith('@') or p in ('.0',) for p in proj):
                    # payload of Ok/Some/Continue or deref only
                    if all(p in ('*',) or p.startswith('@') or p == '.0' for p in o.proj):
                        o = o.base
                        continue
            return o

    def calls(self):
        """All call origins reachable through this origin (for 'derives from')."""
        out = []
        seen = set()

        def walk(o):
            if id(o) in seen:
                return
            seen.add(id(o))
            if o.kind == 'call':
                out.append(o)
                for a in o.args:
                    walk(a)
            for attr in ('base', 'a', 'b'):
                v = getattr(o, attr, None)
                if isinstance(v, Origin):
                    walk(v)
            for v in getattr(o, 'alts', []) or []:
                walk(v)
            for v in getattr(o, 'ops', []) or []:
                walk(v)
        walk(self)
        return out

    def leaves(self):
        """All leaf origins (params, consts, calls w/o following args, fields)."""
        out = []
        seen = set()

        def walk(o):
            if id(o) in seen:
                return
            seen.add(id(o))
            kids = []
            for attr in ('base', 'a', 'b'):
                v = getattr(o, attr, None)
                if isinstance(v, Origin):
                    kids.append(v)
            kids += list(getattr(o, 'alts', []) or [])
            kids += list(getattr(o, 'ops', []) or [])
            if o.kind == 'call':
                out.append(o)
                return
            if not kids:
                out.append(o)
            for k in kids:
                walk(k)
        walk(self)
        return out


# Calls through which a value's identity is preserved (first argument).
TRANSPARENT = [
    'core::ops::Deref::deref', 'core::ops::DerefMut::deref_mut',
    'std::ops::Deref::deref', 'std::ops::DerefMut::deref_mut',
    'core::clone::Clone::clone', 'std::clone::Clone::clone',
    'core::convert::AsRef::as_ref', 'std::convert::AsRef::as_ref',
    'core::convert::AsMut::as_mut', 'std::convert::AsMut::as_mut',
    'core::borrow::Borrow::borrow', 'std::borrow::Borrow::borrow',
    'std::borrow::ToOwned::to_owned',
    'core::convert::Into::into', 'std::convert::Into::into',
    'core::convert::From::from', 'std::convert::From::from',
    'core::ops::Try::branch', 'std::ops::Try::branch',
    'core::ops::FromResidual::from_residual', 'std::ops::FromResidual::from_residual',
    'core::option::Option::as_ref', 'std::option::Option::as_ref',
    'core::option::Option::as_mut', 'std::option::Option::as_mut',
    'core::option::Option::as_deref', 'std::option::Option::as_deref',
    'core::result::Result::as_ref', 'std::result::Result::as_ref',
    'core::option::Option::unwrap', 'std::option::Option::unwrap',
    'core::result::Result::unwrap', 'std::result::Result::unwrap',
    'core::option::Option::expect', 'std::option::Option::expect',
    'core::result::Result::expect', 'std::result::Result::expect',
    'core::option::Option::copied', 'std::option::Option::copied',
    'core::option::Option::cloned', 'std::option::Option::cloned',
    'core::iter::IntoIterator::into_iter', 'std::iter::IntoIterator::into_iter',
    'std::sync::Arc::clone', 'alloc::sync::Arc::clone',
    'std::pin::Pin::new', 'core::pin::Pin::new',
    'std::pin::Pin::get_mut', 'std::pin::Pin::as_mut',
    'std::pin::Pin::new_unchecked', 'std::pin::Pin::get_unchecked_mut',
    'std::future::IntoFuture::into_future',
    # variant-preserving adaptors (Ok stays Ok, Err stays Err)
    'core::result::Result::map_err', 'std::result::Result::map_err',
]


def is_transparent(term):
    f = term['fn']
    d = norm(f.get('def'))
    if d is None:
        return False
    return d in _TRANSPARENT_SET


_TRANSPARENT_SET = set(TRANSPARENT)


# --------------------------------------------------------------------- body

class Body:
    def __init__(self, rec, facts=None):
        self.rec = rec
        self.facts = facts
        self.id = rec['id']
        self.nid = norm(rec['id'])
        self.blocks = rec['blocks']
        self.locals = rec['locals']
        self.file = rec['span']['file']
        self.line = rec['span']['line']
        self.argc = rec['argc']
        self._names = {}
        for d in rec['debug']:
            if len(d['p']) == 1:
                self._names.setdefault(d['p'][0], d['name'])
        self._upvars = {}
        for d in rec['debug']:
            if len(d['p']) > 1 and d['p'][0] == 1:
                self._upvars[json.dumps([p for p in d['p'] if p != '*'])] = d['name']
        self._succ = None
        self._pred = None
        self._defs = None
        self._dom = None
        self._origin_cache = {}

    # ---- naming
    def local_name(self, l):
        if l in self._names:
            return self._names[l]
        return '_%d' % l

    def local_ty(self, l):
        return self.locals[l]['ty']

    def upvar_name(self, place):
        return self._upvars.get(json.dumps([p for p in place if p != '*']))

    # ---- CFG
    def _build_cfg(self):
        n = len(self.blocks)
        succ = [[] for _ in range(n)]
        usucc = [[] for _ in range(n)]
        for i, b in enumerate(self.blocks):
            t = b['term']
            k = t['t']
            if k == 'goto':
                succ[i].append(t['to'])
            elif k == 'switch':
                for _v, tb in t['targets']:
                    if tb not in succ[i]:
                        succ[i].append(tb)
                if t['otherwise'] not in succ[i]:
                    succ[i].append(t['otherwise'])
            elif k in ('call', 'drop', 'assert'):
                if t.get('to') is not None:
                    succ[i].append(t['to'])
                if t.get('unwind') is not None:
                    usucc[i].append(t['unwind'])
            elif k == 'yield':
                succ[i].append(t['to'])
                # the `drop` edge is the cancellation path of the coroutine
                if t.get('drop') is not None:
                    usucc[i].append(t['drop'])
        self._succ = succ
        self._usucc = usucc
        pred = [[] for _ in range(n)]
        for i, ss in enumerate(succ):
            for s in ss:
                pred[s].append(i)
        self._pred = pred

    def succ(self, b):
        if self._succ is None:
            self._build_cfg()
        return self._succ[b]

    def pred(self, b):
        if self._succ is None:
            self._build_cfg()
        return self._pred[b]

    def is_cleanup(self, b):
        return self.blocks[b]['cleanup']

    def reachable(self, start=0, avoid_nodes=(), avoid_edges=()):
        """Blocks reachable from `start` on normal (non-unwind) edges.
        `avoid_nodes`: blocks whose *terminator* is never passed (they can be
        entered, not left).  `avoid_edges`: (from,to) pairs."""
        avoid_nodes = set(avoid_nodes)
        avoid_edges = set(avoid_edges)
        seen = set()
        starts = [start] if isinstance(start, int) else list(start)
        stack = list(starts)
        while stack:
            b = stack.pop()
            if b in seen:
                continue
            seen.add(b)
            if b in avoid_nodes:
                continue
            for s in self.succ(b):
                if (b, s) in avoid_edges:
                    continue
                if s not in seen:
                    stack.append(s)
        return seen

    def reachable_blocks(self):
        return self.reachable(0)

    def can_reach(self, src, dst, avoid_nodes=(), avoid_edges=()):
        """Is there a path (>=0 edges) from end-of-`src` ... to block dst."""
        return dst in self.reachable(src, avoid_nodes, avoid_edges)

    def path_avoiding(self, dst, avoid_nodes=(), avoid_edges=(), start=0):
        """Return one path (list of bbs) start->dst avoiding, or None."""
        avoid_nodes = set(avoid_nodes)
        avoid_edges = set(avoid_edges)
        from collections import deque
        prev = {start: None}
        dq = deque([start])
        while dq:
            b = dq.popleft()
            if b == dst:
                p = []
                while b is not None:
                    p.append(b)
                    b = prev[b]
                return list(reversed(p))
            if b in avoid_nodes:
                continue
            for s in self.succ(b):
                if (b, s) in avoid_edges or s in prev:
                    continue
                prev[s] = b
                dq.append(s)
        return None

    def dominators(self):
        """idom-free dominator sets (small CFGs)."""
        if self._dom is not None:
            return self._dom
        reach = sorted(self.reachable(0))
        allb = set(reach)
        dom = {b: set(allb) for b in reach}
        dom[0] = {0}
        changed = True
        order = reach
        while changed:
            changed = False
            for b in order:
                if b == 0:
                    continue
                ps = [p for p in self.pred(b) if p in allb]
                if not ps:
                    new = {b}
                else:
                    new = set.intersection(*(dom[p] for p in ps)) | {b}
                if new != dom[b]:
                    dom[b] = new
                    changed = True
        self._dom = dom
        return dom

    def dominates(self, a, b):
        """block a dominates block b"""
        d = self.dominators()
        return b in d and a in d[b]

    def site_dominates(self, p, q):
        if p.bb == q.bb:
            return p.idx <= q.idx
        return self.dominates(p.bb, q.bb)

    def back_edges(self):
        out = []
        d = self.dominators()
        for b in d:
            for s in self.succ(b):
                if s in d[b]:
                    out.append((b, s))
        return out

    def natural_loop(self, edge):
        tail, head = edge
        loop = {head, tail}
        stack = [tail]
        while stack:
            b = stack.pop()
            if b == head:
                continue
            for p in self.pred(b):
                if p not in loop:
                    loop.add(p)
                    stack.append(p)
        return loop

    # ---- sites
    def sites(self, include_cleanup=False):
        for i, b in enumerate(self.blocks):
            if b['cleanup'] and not include_cleanup:
                continue
            yield Site(self, i)

    def calls(self, pat=None, include_cleanup=False, reachable_only=True):
        reach = self.reachable(0) if reachable_only else None
        out = []
        for i, b in enumerate(self.blocks):
            if b['cleanup'] and not include_cleanup:
                continue
            if reach is not None and i not in reach:
                continue
            t = b['term']
            if t['t'] != 'call':
                continue
            if pat is None or callee_matches(t, pat):
                out.append(Site(self, i))
        return out

    def stmts(self, include_cleanup=False):
        reach = self.reachable(0)
        for i, b in enumerate(self.blocks):
            if b['cleanup'] and not include_cleanup:
                continue
            if i not in reach:
                continue
            for j, s in enumerate(b['stmts']):
                yield Site(self, i, j), s

    def returns(self):
        reach = self.reachable(0)
        return [Site(self, i) for i, b in enumerate(self.blocks)
                if b['term']['t'] == 'return' and i in reach and not b['cleanup']]

    # ---- defs
    def defs(self, local):
        """Definition sites of whole local `local`: list of (Site, kind, payload)."""
        if self._defs is None:
            d = {}
            for i, b in enumerate(self.blocks):
                if b['cleanup']:
                    continue
                for j, s in enumerate(b['stmts']):
                    if s['s'] == 'assign':
                        d.setdefault(s['lhs'][0], []).append((Site(self, i, j), s))
                    elif s['s'] == 'setdiscr':
                        d.setdefault(s['p'][0], []).append((Site(self, i, j), s))
                t = b['term']
                if t['t'] == 'call':
                    d.setdefault(t['dest'][0], []).append((Site(self, i), t))
                elif t['t'] == 'yield':
                    pass
            self._defs = d
        return self._defs.get(local, [])

    def whole_defs(self, local):
        out = []
        for site, s in self.defs(local):
            lhs = s.get('lhs') or s.get('dest') or s.get('p')
            if len(lhs) == 1:
                out.append((site, s))
        return out

    # ---- origins (backward slice)
    def origin_of_operand(self, op, depth=0):
        top = not getattr(self, '_memo_active', False)
        if top:
            self._memo_active = True
            self._origin_cache = {}
        try:
            return self._origin_of_operand(op, depth)
        finally:
            if top:
                self._memo_active = False

    def _origin_of_operand(self, op, depth=0):
        if 'k' in op:
            k = op['k']
            if 'fn' in k:
                return Origin('const', value='fn:' + norm(k['fn']), ty=k['ty'], fn=norm(k['fn']))
            v = k.get('v') if k.get('ty') == 'char' else k.get('int', k.get('v'))
            return Origin('const', value=v, ty=k['ty'])
        place = op.get('c') or op.get('m')
        if place is None:
            return Origin('unknown')
        return self.origin_of_place(place, depth)

    def origin_of_place(self, place, depth=0):
        top = not getattr(self, '_memo_active', False)
        if top:
            self._memo_active = True
            self._origin_cache = {}
        try:
            return self._origin_of_place(place, depth)
        finally:
            if top:
                self._memo_active = False

    def _origin_of_place(self, place, depth=0):
        base = self.origin_of_local(place[0], depth)
        if len(place) == 1:
            return base
        proj = list(place[1:])
        # closure upvar?
        if place[0] == 1 and self.rec['def_kind'] == 'Closure':
            nm = self.upvar_name(place)
            if nm:
                return Origin('param', name='upvar:' + nm, idx=None, upvar=nm)
        if base.kind == 'place':
            return Origin('place', base=base.base, proj=base.proj + proj)
        if base.kind == 'ref' and base.base.kind == 'place':
            return Origin('place', base=base.base.base, proj=base.base.proj + proj)
        if base.kind == 'ref':
            return Origin('place', base=base.base, proj=proj)
        return Origin('place', base=base, proj=proj)

    def origin_of_local(self, l, depth=0):
        # Memoise per top-level query only: a placeholder handed out to break a
        # cycle (loop-carried variables) must not leak into later queries.
        top = not getattr(self, '_memo_active', False)
        if top:
            self._memo_active = True
            self._origin_cache = {}
        try:
            key = l
            if key in self._origin_cache:
                return self._origin_cache[key]
            if depth > 60:
                return Origin('unknown')
            self._origin_cache[key] = Origin('local', name=self.local_name(l), local=l)
            o = self._origin_of_local(l, depth)
            self._origin_cache[key] = o
            return o
        finally:
            if top:
                self._memo_active = False

    def origin_of_stmt(self, site):
        """Origin of the value assigned by the statement at `site` (any lhs)."""
        top = not getattr(self, '_memo_active', False)
        if top:
            self._memo_active = True
            self._origin_cache = {}
        try:
            return self._origin_of_def(site, site.stmt, 0)
        finally:
            if top:
                self._memo_active = False

    def _origin_of_local(self, l, depth):
        if 1 <= l <= self.argc:
            defs = self.whole_defs(l)
            if not defs:
                return Origin('param', name=self.local_name(l), idx=l)
        defs = self.whole_defs(l)
        if not defs:
            return Origin('local', name=self.local_name(l), local=l)
        alts = [self._origin_of_def(site, s, depth + 1) for site, s in defs]
        if len(alts) == 1:
            return alts[0]
        return Origin('multi', alts=alts, name=self.local_name(l), local=l, user=self.locals[l]['user'])

    def _origin_of_def(self, site, s, depth):
        if s.get('s') == 'assign':
            rv = s['rv']
            r = rv['r']
            if r == 'use':
                return self.origin_of_operand(rv['o'], depth)
            if r == 'ref' or r == 'rawptr':
                return Origin('ref', base=self.origin_of_place(rv['p'], depth))
            if r == 'cast':
                return Origin('cast', base=self.origin_of_operand(rv['o'], depth), ty=rv['ty'], cast=rv['kind'])
            if r == 'bin':
                return Origin('bin', op=rv['op'], a=self.origin_of_operand(rv['a'], depth),
                              b=self.origin_of_operand(rv['b'], depth), site=site)
            if r == 'un':
                return Origin('un', op=rv['op'], a=self.origin_of_operand(rv['a'], depth), site=site)
            if r == 'discr':
                return Origin('un', op='discr', a=self.origin_of_place(rv['p'], depth), site=site, rv=rv)
            if r == 'agg':
                ops = [self.origin_of_operand(o, depth) for o in rv['ops']]
                what = rv.get('adt') or rv.get('def') or rv['kind']
                if rv.get('variant'):
                    what = norm(what) + '::' + rv['variant']
                return Origin('agg', what=norm(what), ops=ops, rv=rv, site=site)
            return Origin('unknown', dbg=rv.get('dbg'))
        if s.get('s') == 'setdiscr':
            return Origin('unknown')
        if s.get('t') == 'call':
            args = [self.origin_of_operand(a, depth) for a in s['args']]
            if is_transparent(s) and args:
                return Origin('ref', base=args[0], via=callee_name(s), site=site)
            return Origin('call', callee=callee_name(s), site=site, args=args, term=s)
        return Origin('unknown')

    # ---- switch labelling
    def switch_edges(self, bb):
        """For a switch terminator at `bb`: (origin, {target_bb: set(labels)}).
        Labels: variant names for enum discriminants, 'true'/'false' for bools,
        ints otherwise.  Try::branch is looked through: Continue->Ok|Some."""
        t = self.blocks[bb]['term']
        assert t['t'] == 'switch'
        op = t['d']
        place = op.get('c') or op.get('m')
        labels = None  # value -> label
        origin = None
        negate = False
        if place is None:
            return Origin('unknown'), {}
        cur = place
        mapping = None  # dict int->label
        steps = 0
        o = None
        while steps < 20:
            steps += 1
            if len(cur) != 1:
                o = self.origin_of_place(cur)
                break
            defs = self.whole_defs(cur[0])
            if len(defs) != 1:
                o = self.origin_of_local(cur[0])
                break
            site, s = defs[0]
            if s.get('s') == 'assign':
                rv = s['rv']
                if rv['r'] == 'use':
                    p2 = rv['o'].get('c') or rv['o'].get('m')
                    if p2 is None:
                        o = self.origin_of_operand(rv['o'])
                        break
                    cur = p2
                    continue
                if rv['r'] == 'discr':
                    if rv.get('vars'):
                        mapping = {v: n for n, v in rv['vars']}
                    o = self.origin_of_place(rv['p'])
                    break
                if rv['r'] == 'un' and rv['op'] == 'Not':
                    negate = not negate
                    p2 = rv['a'].get('c') or rv['a'].get('m')
                    if p2 is None:
                        o = self.origin_of_operand(rv['a'])
                        break
                    cur = p2
                    continue
                o = self._origin_of_def(site, s, 0)
                break
            else:
                o = self._origin_of_def(site, s, 0)
                break
        if o is None:
            o = Origin('unknown')
        # look through is_ok/is_err/is_some/is_none: relabel the bool edges with the variant
        variant_of_bool = None
        if o.kind == 'call' and o.args and mapping is None:
            last = o.callee.split('::')[-1]
            owner = o.callee.split('::')[-2] if '::' in o.callee else ''
            tbl = {('Result', 'is_ok'): ('Ok', 'Err'), ('Result', 'is_err'): ('Err', 'Ok'),
                   ('Option', 'is_some'): ('Some', 'None'), ('Option', 'is_none'): ('None', 'Some'),
                   ('Poll', 'is_pending'): ('Pending', 'Ready'), ('Poll', 'is_ready'): ('Ready', 'Pending')}
            if (owner, last) in tbl:
                variant_of_bool = tbl[(owner, last)]
                o = o.args[0]
                while o.kind == 'ref' and not getattr(o, 'via', None):
                    o = o.base
        # look through Try::branch: o is 'ref' via Try::branch with base = arg
        via_try = False
        oo = o
        if oo.kind == 'ref' and getattr(oo, 'via', '') and (oo.via.endswith('Try::branch') or oo.via.endswith('Try>::branch')):
            via_try = True
            oo = oo.base
        # label mapping
        res = {}
        dty = t.get('dty')

        def lab(v):
            if mapping is not None:
                nm = mapping.get(v, str(v))
                if via_try:
                    nm = {'Continue': 'pass', 'Break': 'fail'}.get(nm, nm)
                return nm
            if dty == 'bool':
                b = (v != 0)
                if negate:
                    b = not b
                if variant_of_bool is not None:
                    return variant_of_bool[0] if b else variant_of_bool[1]
                return 'true' if b else 'false'
            return str(v)
        seen_vals = set()
        for v, tb in t['targets']:
            res.setdefault(tb, set()).add(lab(v))
            seen_vals.add(v)
        # otherwise
        ob = t['otherwise']
        if mapping is not None:
            rest = [n for v, n in mapping.items() if v not in seen_vals]
            if via_try:
                rest = [{'Continue': 'pass', 'Break': 'fail'}.get(n, n) for n in rest]
            if rest:
                res.setdefault(ob, set()).update(rest)
            # else: otherwise is unreachable
        elif dty == 'bool':
            if 0 in seen_vals and 1 not in seen_vals:
                res.setdefault(ob, set()).add(lab(1))
            elif 1 in seen_vals and 0 not in seen_vals:
                res.setdefault(ob, set()).add(lab(0))
        else:
            res.setdefault(ob, set()).add('other')
        out_o = oo if via_try else o
        # look through `x.ok()` / `x.err()`: a switch on the Option stands for a switch on the Result x
        if not via_try and out_o is not None and out_o.kind == 'call' and out_o.args and mapping is not None \
                and re.search(r'(^|::)Result(<.*>)?::(ok|err)$', out_o.callee):
            conv = {'ok': {'Some': 'Ok', 'None': 'Err'}, 'err': {'Some': 'Err', 'None': 'Ok'}}[out_o.callee.rsplit('::', 1)[-1]]
            if all(l in conv for labs in res.values() for l in labs):
                res = {tb: set(conv[l] for l in labs) for tb, labs in res.items()}
                out_o = out_o.args[0]
                while out_o.kind == 'ref' and not getattr(out_o, 'via', None):
                    out_o = out_o.base
        return out_o, res

    def switches(self):
        reach = self.reachable(0)
        return [i for i, b in enumerate(self.blocks)
                if b['term']['t'] == 'switch' and i in reach and not b['cleanup']]


PASS_LABELS = {'Ok', 'Some', 'pass', 'true', 'Continue', 'Ready'}
FAIL_LABELS = {'Err', 'None', 'fail', 'false', 'Break'}


def origin_is_call(o, pat):
    """Does origin `o` (possibly through refs / Ok-payloads / transparent calls)
    come from a call matching pat?  Returns the call Origin or None."""
    seen = 0
    while o is not None and seen < 30:
        seen += 1
        if o.kind == 'call':
            if callee_matches(o.term, pat):
                return o
            return None
        if o.kind in ('ref', 'cast'):
            o = o.base
            continue
        if o.kind == 'place':
            o = o.base
            continue
        if o.kind == 'multi':
            for a in o.alts:
                r = origin_is_call(a, pat)
                if r is not None:
                    return r
            return None
        return None
    return None


def guard_edges(body, pred_origin, labels):
    """All CFG edges (switch_bb, target_bb) of switches whose origin satisfies
    `pred_origin(origin)` and whose edge labels intersect `labels`.
    Returns (pass_edges, other_edges, switch_bbs)."""
    pass_edges = []
    other_edges = []
    sw = []
    for bb in body.switches():
        o, edges = body.switch_edges(bb)
        if not pred_origin(o):
            continue
        sw.append(bb)
        for tb, labs in edges.items():
            if labs & set(labels) and not (labs - set(labels)):
                pass_edges.append((bb, tb))
            else:
                other_edges.append((bb, tb))
        # targets without label info (unreachable otherwise) are ignored
    return pass_edges, other_edges, sw


# --------------------------------------------------------------------- facts

class Facts:
    def __init__(self, path, inline=False):
        self.path = path
        self.inline = inline          # shape normalisation: splice unknown (new) helper functions into their callers
        self.inlined_bodies = {}      # nid -> [inlined callee nids]
        self._lines = {}      # id -> raw line
        self._bodies = {}     # id -> Body
        self.adts = {}
        self.impls = []
        self.traits = {}
        self.fns = {}
        self.meta = None
        self.by_nid = {}
        self.renamed = {}
        self.field_renamed = {}
        if 'routinator' in os.path.basename(path):
            _RENAME.clear()
        with open(path) as f:
            for line in f:
                if line.startswith('{"k":"body","id":"'):
                    end = line.index('","def_kind"')
                    raw_id = json.loads(line[17:end + 1])
                    self._lines[raw_id] = line
                    self.by_nid.setdefault(norm(raw_id), []).append(raw_id)
                else:
                    r = json.loads(line)
                    k = r['k']
                    if k == 'adt':
                        self.adts[norm(r['id'])] = r
                    elif k == 'impl':
                        self.impls.append(r)
                    elif k == 'trait':
                        self.traits[norm(r['id'])] = r
                    elif k == 'fn':
                        self.fns[norm(r['id'])] = r
                    elif k == 'meta':
                        self.meta = r
        self._callers = None
        self._idx = None
        self._detect_renames()

    # ---- robustness against renames of private functions / fields ------------------------------------
    def _detect_renames(self):
        """A function of the development-time snapshot that is gone, and a function the snapshot does not know in the
        same impl/module whose set of callees is (almost) the same, are the same function under a new name: the rule
        tables keep using the old name. Likewise for a struct field that disappeared while one field of the same type
        appeared in the same struct. Nothing here produces a verdict; it only decides under which name code is looked at."""
        from .inline import known_snapshot
        snap = known_snapshot()
        if not snap or self.meta is None or 'routinator' not in os.path.basename(self.path):
            return
        known = set(snap.get('functions', []))
        kcallees = snap.get('callees', {})
        present = set(n for n in self.by_nid if '{closure' not in n)
        missing = sorted(n for n in known - present if not n.split('::')[0] in ('std', 'core'))
        unknown = sorted(n for n in present - known)
        if missing and unknown:
            cur = {}
            for u in unknown:
                cs = set()
                for raw in self.by_nid.get(u, []):
                    rec = json.loads(self._lines[raw])
                    for blk in rec['blocks']:
                        t = blk['term']
                        if t.get('t') == 'call':
                            cs.add(_norm((t['fn'].get('resolved') or t['fn'].get('def') or '<indirect>')))
                cur[u] = cs
            used = set()
            for m in missing:
                parent = m.rsplit('::', 1)[0]
                want = set(kcallees.get(m, []))
                best = None
                for u in unknown:
                    if u in used or u.rsplit('::', 1)[0] != parent:
                        continue
                    have = cur[u]
                    if not want and not have:
                        score = 0.5
                    else:
                        score = len(want & have) / float(len(want | have) or 1)
                    if best is None or score > best[0]:
                        best = (score, u)
                if best and best[0] >= 0.6:
                    self.renamed[best[1]] = m
                    used.add(best[1])
                    continue
                # the only function that disappeared from this impl/module and the only new one in it, and the new one
                # still calls everything the old one called (a rename plus an added assertion or log line)
                sib_missing = [x for x in missing if x.rsplit('::', 1)[0] == parent]
                sib_unknown = [x for x in unknown if x.rsplit('::', 1)[0] == parent and x not in used]
                if len(sib_missing) == 1 and len(sib_unknown) == 1 and want and want <= cur[sib_unknown[0]]:
                    self.renamed[sib_unknown[0]] = m
                    used.add(sib_unknown[0])
        if self.renamed:
            _RENAME.update(self.renamed)
            by = {}
            for raw in self._lines:
                by.setdefault(norm(raw), []).append(raw)
            self.by_nid = by
            self._idx = None
        # fields
        kfields = snap.get('fields', {})
        all_names = {}
        for name, a in self.adts.items():
            for v in a.get('variants', []):
                for x in v.get('fields', []):
                    all_names.setdefault(x['name'], 0)
                    all_names[x['name']] += 1
        for name, a in self.adts.items():
            for v in a.get('variants', []):
                old = kfields.get(name, {}).get(v['name'])
                if old is None:
                    continue
                oldn = [(n, t) for n, t in old]
                newn = [(x['name'], x['ty']) for x in v.get('fields', [])]
                gone = [(n, t) for n, t in oldn if n not in [y[0] for y in newn]]
                came = [(n, t) for n, t in newn if n not in [y[0] for y in oldn]]
                for (gn, gt) in gone:
                    cands = [(cn, ct) for cn, ct in came if ct == gt]
                    if len(cands) > 1 and len(oldn) == len(newn):
                        # several fields of one type were renamed: same position in the struct = same field
                        pos = [i for i, (n, t) in enumerate(oldn) if n == gn][0]
                        if newn[pos][1] == gt and newn[pos] in cands:
                            cands = [newn[pos]]
                    if len(cands) == 1 and all_names.get(cands[0][0], 0) == 1 and not cands[0][0].isdigit():
                        self.field_renamed[cands[0][0]] = gn
                        for x in v['fields']:
                            if x['name'] == cands[0][0]:
                                x['name'] = gn

    def _apply_field_renames(self, line):
        for new, old in self.field_renamed.items():
            line = line.replace('".%s"' % new, '".%s"' % old)
            line = re.sub(r'("names":\[[^\]]*?)"%s"' % re.escape(new), r'\1"%s"' % old, line)
            line = line.replace('"name":"%s"' % new, '"name":"%s"' % old)
        return line

    def _index(self):
        """callee name -> set(raw body ids); cached next to the fact file."""
        if self._idx is not None:
            return self._idx
        ip = self.path + '.calls.json'
        if os.path.exists(ip) and os.path.getmtime(ip) >= os.path.getmtime(self.path):
            try:
                self._idx = json.load(open(ip))
                return self._idx
            except Exception:
                pass
        idx = {}
        for raw, line in self._lines.items():
            rec = json.loads(line)
            names = set()
            for blk in rec['blocks']:
                t = blk['term']
                if t['t'] in ('call', 'tailcall'):
                    for nm in callee_names(t):
                        names.add(nm)
            for nm in names:
                idx.setdefault(nm, []).append(raw)
        tmp = ip + '.%d.tmp' % os.getpid()
        with open(tmp, 'w') as f:
            json.dump(idx, f)
        os.replace(tmp, ip)
        self._idx = idx
        return idx

    def body_ids(self):
        return list(self._lines.keys())

    def body_raw(self, raw_id):
        b = self._bodies.get(raw_id)
        if b is None:
            rec = json.loads(self._apply_field_renames(self._lines[raw_id]) if self.field_renamed else self._lines[raw_id])
            if self.inline:
                from .inline import inline_unknown_helpers
                rec, done = inline_unknown_helpers(rec, self._lookup_rec, norm)
                if done:
                    self.inlined_bodies[norm(raw_id)] = done
            b = Body(rec, self)
            self._bodies[raw_id] = b
        return b

    def _lookup_rec(self, nid):
        raws = self.by_nid.get(nid) or []
        if len(raws) != 1:
            return None
        return json.loads(self._lines[raws[0]])

    def unknown_functions(self):
        """Crate functions that the development-time snapshot does not know (new helpers / renamed functions)."""
        from .inline import known_functions
        known = known_functions()
        if not known:
            return []
        return sorted(n for n in self.by_nid if '{closure' not in n and n not in known
                      and n.split('::')[0] not in ('std', 'core', 'alloc') and '::test::' not in n and not n.startswith('test'))

    def find(self, pat):
        """Bodies whose normalised id matches the suffix pattern / regex."""
        out = []
        for nid, raws in self.by_nid.items():
            if path_matches(nid, pat):
                for r in raws:
                    out.append(self.body_raw(r))
        return out

    def one(self, pat):
        bs = self.find(pat)
        if len(bs) != 1:
            raise AnchorError('anchor %r: expected exactly one body, found %d (%s)'
                              % (pat, len(bs), [b.nid for b in bs][:5]))
        return bs[0]

    def all_bodies(self):
        for r in self._lines:
            yield self.body_raw(r)

    def closures_of(self, body):
        """Closure / coroutine bodies lexically inside `body` (transitively)."""
        prefs = [body.id + '::{']
        # closures of helper functions that were spliced into this body belong to it as well
        for nid in body.rec.get('inlined', []) or []:
            for raw in self.by_nid.get(nid, []):
                prefs.append(raw + '::{')
        out = []
        for raw in self._lines:
            if any(raw.startswith(pref) for pref in prefs):
                out.append(self.body_raw(raw))
        return out

    def callers(self, pat):
        """All call sites in the crate whose callee matches pat."""
        out = []
        idx = self._index()
        raws = []
        seen = set()
        for nm, rs in idx.items():
            if path_matches(nm, pat):
                for r in rs:
                    if r not in seen:
                        seen.add(r)
                        raws.append(r)
        for raw in raws:
            if raw in self._lines:
                out.extend(self.body_raw(raw).calls(pat))
        return out

    def impls_of_trait(self, trait_pat):
        return [i for i in self.impls if i.get('trait') and path_matches(norm(i['trait']), trait_pat)]


class AnchorError(Exception):
    pass
