"""Obligation bookkeeping, known findings, evidence writer."""
import json
import os
import sys
import time

VERIF = os.path.dirname(os.path.dirname(os.path.dirname(os.path.abspath(__file__))))


class Skip(Exception):
    """Raised to abandon a rule whose anchor is missing (already reported)."""


class Ctx:
    def __init__(self, pid, facts, tier='quick', seed=0):
        self.pid = pid
        self.facts = facts
        self.tier = tier
        self.seed = seed
        self.t0 = time.time()
        self.obligations = []   # dicts: rule,key,ok,what,loc
        self.samples = []
        self.bodies = set()
        self.call_sites = 0
        self.notes = []
        self.floors = []
        self.extra = {}

    # -- anchors ---------------------------------------------------------
    def body(self, pat, rule='anchor'):
        bs = self.facts.find(pat)
        if len(bs) != 1:
            self.bad(rule, 'anchor:%s' % pat,
                     'anchor missing or ambiguous: expected exactly one body matching %r, found %d %s'
                     % (pat, len(bs), [b.nid for b in bs][:4]))
            raise Skip()
        self.bodies.add(bs[0].nid)
        return bs[0]

    def bodies_of(self, pat, minimum=1, rule='anchor'):
        bs = self.facts.find(pat)
        if len(bs) < minimum:
            self.bad(rule, 'anchor:%s' % pat,
                     'anchor missing: expected >= %d bodies matching %r, found %d' % (minimum, pat, len(bs)))
            raise Skip()
        for b in bs:
            self.bodies.add(b.nid)
        return bs

    def closures(self, body):
        cs = self.facts.closures_of(body)
        for c in cs:
            self.bodies.add(c.nid)
        return cs

    # -- obligations -----------------------------------------------------
    def ok(self, rule, key, what, loc=None):
        self.obligations.append(dict(rule=rule, key='%s/%s:%s' % (self.pid, rule, key), ok=True, what=what, loc=loc))

    def bad(self, rule, key, what, loc=None, path=None):
        self.obligations.append(dict(rule=rule, key='%s/%s:%s' % (self.pid, rule, key), ok=False, what=what,
                                     loc=loc, path=path))

    def check(self, cond, rule, key, what_ok, what_bad=None, loc=None, path=None):
        if cond:
            self.ok(rule, key, what_ok, loc)
        else:
            self.bad(rule, key, what_bad or ('NOT: ' + what_ok), loc, path)
        return cond

    def floor(self, rule, name, count, minimum):
        """A rule that matches fewer instances than counted by hand fails."""
        self.floors.append(dict(rule=rule, name=name, count=count, floor=minimum))
        if count < minimum:
            self.bad(rule, 'floor:%s' % name,
                     'rule instance count fell below the floor: %s matched %d, floor %d (rule would pass vacuously)'
                     % (name, count, minimum))
        else:
            self.ok(rule, 'floor:%s' % name, '%s: %d instance(s) (floor %d)' % (name, count, minimum))

    def sample(self, s):
        if len(self.samples) < 12:
            self.samples.append(s)

    def note(self, s):
        self.notes.append(s)

    # -- finish ------------------------------------------------------------
    def finish(self, meta):
        known = []
        kf = os.path.join(VERIF, 'known_findings.json')
        if os.path.exists(kf):
            known = json.load(open(kf))
        open_keys = {k['key']: k for k in known
                     if k.get('property') == self.pid and k.get('status') == 'open'}
        viol = [o for o in self.obligations if not o['ok']]
        new = [o for o in viol if o['key'] not in open_keys]
        listed = [o for o in viol if o['key'] in open_keys]
        wall = time.time() - self.t0
        level = meta.get('level', 'other')
        n_ob = len(self.obligations)
        n_ok = n_ob - len(viol)
        cov = {
            'explanation': meta['explanation'],
            'obligations': n_ob,
            'discharged': n_ok,
            'checker_cmd': './check %s --tier %s' % (self.pid, self.tier),
            'trusted_base': meta.get('trusted_base', []),
            'rule': meta.get('rule', 'one obligation per (rule instance, call site / edge / field) listed under rules'),
            'evaluations': max(n_ob, 1),
            'distinct_nontrivial': len(set(o['key'] for o in self.obligations)),
            'samples': self.samples or [dict(key=o['key'], what=o['what'], loc=o['loc']) for o in self.obligations[:8]],
            'bodies_analysed': sorted(self.bodies),
            'n_bodies_analysed': len(self.bodies),
            'floors': self.floors,
            'rules': meta.get('rules', []),
            'obligation_list': [dict(key=o['key'], ok=o['ok'], what=o['what'], loc=o['loc']) for o in self.obligations],
            'known_findings_reported': [o['key'] for o in listed],
            'decides': meta.get('decides', ''),
            'does_not_decide': meta.get('undecided', ''),
            'notes': self.notes,
            'facts': {'crate_bodies': self.facts.meta.get('bodies') if self.facts.meta else None,
                      'missing_bodies': self.facts.meta.get('missing') if self.facts.meta else None},
        }
        cov.update(self.extra)
        if level == 'proof' and (viol or n_ob == 0):
            level_out = 'other'
        else:
            level_out = level
        ev = {
            'property_id': self.pid,
            'tier': self.tier,
            'seed': self.seed,
            'level': level_out,
            'coverage': cov,
            'assumptions': meta.get('assumptions', []),
            'wall_s': round(wall, 3),
            'violations': len(new),
        }
        os.makedirs(os.path.join(VERIF, 'evidence'), exist_ok=True)
        evp = os.path.join(VERIF, 'evidence', '%s.json' % self.pid)
        with open(evp, 'w') as f:
            json.dump(ev, f, indent=1)
        print('%s [%s] obligations=%d discharged=%d bodies=%d wall=%.2fs'
              % (self.pid, self.tier, n_ob, n_ok, len(self.bodies), wall))
        for o in listed:
            print('KNOWN-FINDING: property=%s %s [%s]' % (self.pid, open_keys[o['key']]['what'], o['key']))
        if new:
            vp = os.path.join(VERIF, 'evidence', '%s.violations.json' % self.pid)
            with open(vp, 'w') as f:
                json.dump(new, f, indent=1)
            for o in new:
                print('  violated: %s' % o['key'])
                print('     %s' % o['what'])
                if o.get('loc'):
                    print('     at %s' % o['loc'])
                if o.get('path'):
                    print('     path: %s' % o['path'])
            print('VIOLATION property=%s replay=%s' % (self.pid, vp))
            return 1
        return 0


def locs(sites):
    return ', '.join(s.loc() for s in sites)
