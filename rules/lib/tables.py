import re
"""K4 decision tables: path-sensitive constant propagation over a loop-free
region of one MIR body.  Enumerates all acyclic entry->return paths, records
the branch conditions taken (origin of the discriminant + label set), the calls
made, and the returned value's shape.  No code is executed."""
from .facts import Site, callee_name, norm, Origin


def short(name, n=2):
    if name is None:
        return '?'
    parts = name.split('::')
    return '::'.join(parts[-n:])


# tuple_proj: rules that do not key on `tuple(..).N` descriptions switch this on (C28)
OPTS = {'tuple_proj': False}


def describe(o, depth=0, _guard=[0]):
    if o is None or depth > 8:
        return '?'
    k = o.kind
    if k == 'agg':
        return '%s(%s)' % (short(o.what), ','.join(describe(x, depth + 1) for x in o.ops))
    if k == 'call':
        if depth < 4 and o.args and len(o.args) <= 2:
            return 'call:%s(%s)' % (short(o.callee), ','.join(describe(a, depth + 1) for a in o.args))
        return 'call:' + short(o.callee)
    if k == 'const':
        return 'const(%s)' % (o.value,)
    if k in ('ref', 'cast'):
        return describe(o.base, depth)
    if k == 'place':
        # field N of a tuple built on this path is the N-th operand: `(0u8, time).0` is `0u8`
        base = o.base
        while base is not None and base.kind in ('ref', 'cast'):
            base = base.base
        proj = [p for p in o.proj if p != '*']
        if OPTS['tuple_proj'] and base is not None and base.kind == 'agg' and base.rv.get('kind') == 'tuple' and proj \
                and re.match(r'^\.\d+$', proj[0]) and int(proj[0][1:]) < len(base.ops):
            inner = base.ops[int(proj[0][1:])]
            return describe(inner, depth) + ''.join(proj[1:])
        return describe(o.base, depth) + ''.join(p for p in o.proj if p != '*')
    if k in ('param', 'local'):
        return o.name
    if k == 'multi' and getattr(o, 'user', False):
        return 'var:' + o.name
    if k == 'multi':
        return 'phi(' + '|'.join(sorted(set(describe(a, depth + 1) for a in o.alts))) + ')'
    if k == 'bin':
        return '%s(%s,%s)' % (o.op, describe(o.a, depth + 1), describe(o.b, depth + 1))
    if k == 'un':
        return '%s(%s)' % (o.op, describe(o.a, depth + 1))
    return k


CMP_TRAIT_METHODS = {
    'eq': lambda a, b: a == b, 'ne': lambda a, b: a != b,
    'lt': lambda a, b: a < b, 'le': lambda a, b: a <= b,
    'gt': lambda a, b: a > b, 'ge': lambda a, b: a >= b,
}


def enum_const_of(o):
    """If origin is a field-less enum constant aggregate, return (adt, variant)."""
    while o is not None and o.kind in ('ref', 'cast'):
        o = o.base
    if o is not None and o.kind == 'agg' and not o.ops and o.rv.get('kind') == 'adt' and o.rv.get('variant'):
        return norm(o.rv['adt']), o.rv['variant']
    return None


def comparison_edges(body, facts, origin, edges):
    """If `origin` is a call to PartialEq/PartialOrd comparing a place with a
    field-less enum constant, re-express the bool edges as variant sets of the
    compared place.  Returns (var_origin, {target: set(variants)}) or None."""
    if origin.kind != 'call' or len(origin.args) != 2:
        return None
    meth = origin.callee.split('::')[-1]
    if meth not in CMP_TRAIT_METHODS:
        return None
    ca, cb = enum_const_of(origin.args[0]), enum_const_of(origin.args[1])
    if (ca is None) == (cb is None):
        return None
    if ca is not None:
        const, var, swap = ca, origin.args[1], True
    else:
        const, var, swap = cb, origin.args[0], False
    adt = facts.adts.get(const[0])
    if adt is None or not adt['enum']:
        return None
    names = [v['name'] for v in adt['variants']]
    if any(v['fields'] for v in adt['variants']):
        return None
    ci = names.index(const[1])
    f = CMP_TRAIT_METHODS[meth]
    res = {}
    for tb, labs in edges.items():
        want = 'true' in labs
        vs = set()
        for i, nm in enumerate(names):
            r = f(ci, i) if swap else f(i, ci)
            if r == want:
                vs.add(nm)
        res[tb] = vs
    while var.kind in ('ref', 'cast'):
        var = var.base
    return var, res



ORDER_LABELS = {
    'lt': ({'Less'}), 'le': ({'Less', 'Equal'}), 'gt': ({'Greater'}), 'ge': ({'Greater', 'Equal'}),
    'eq': ({'Equal'}), 'ne': ({'Less', 'Greater', 'Unordered'}),
    'Lt': ({'Less'}), 'Le': ({'Less', 'Equal'}), 'Gt': ({'Greater'}), 'Ge': ({'Greater', 'Equal'}),
    'Eq': ({'Equal'}), 'Ne': ({'Less', 'Greater', 'Unordered'}),
}
MIRROR = {'Less': 'Greater', 'Greater': 'Less', 'Equal': 'Equal', 'Unordered': 'Unordered'}
PARTIAL_ONLY = ('rpki::rtr::Serial', 'rpki::rtr::state::Serial', 'f32', 'f64')


def order_edges(origin, edges):
    """Re-express a bool switch on a comparison `A op B` as a switch on the
    three/four-valued order relation cmp(A,B)."""
    if origin.kind == 'call' and len(origin.args) == 2:
        meth = origin.callee.split('::')[-1]
        if meth not in ORDER_LABELS or not ('PartialOrd' in origin.callee or 'PartialEq' in origin.callee
                                            or 'cmp::' in origin.callee):
            return None
        a, b = origin.args
        selfty = origin.term['fn'].get('self') or ''
        partial = any(norm(selfty).lstrip('&').startswith(t) for t in PARTIAL_ONLY)
    elif origin.kind == 'bin' and origin.op in ORDER_LABELS:
        meth = origin.op
        a, b = origin.a, origin.b
        partial = False
    else:
        return None
    dom = {'Less', 'Equal', 'Greater'} | ({'Unordered'} if partial else set())
    tl = set(ORDER_LABELS[meth]) & dom
    fl = dom - tl
    da, db = describe(a), describe(b)
    if da > db:
        da, db = db, da
        tl = set(MIRROR[x] for x in tl)
        fl = set(MIRROR[x] for x in fl)
    res = {}
    for tb, labs in edges.items():
        if 'true' in labs and 'false' not in labs:
            res[tb] = set(tl)
        elif 'false' in labs and 'true' not in labs:
            res[tb] = set(fl)
        else:
            return None
    return 'cmp(%s,%s)' % (da, db), res


NONE_PRESERVING = ('Option::and_then', 'Option::map', 'Option::as_ref', 'Option::as_mut', 'Option::as_deref',
                   'Option::cloned', 'Option::copied', 'Option::filter')


def refine(body, o, env, depth=0):
    """Replace phi origins by the definition taken on the current path."""
    if o is None or depth > 12:
        return o
    k = o.kind
    if k == 'multi' and ('def', getattr(o, 'local', None)) in env:
        site, s = env[('def', o.local)]
        return refine(body, body._origin_of_def(site, s, 0), env, depth + 1)
    if k in ('ref', 'cast'):
        nb = refine(body, o.base, env, depth + 1)
        if nb is not o.base:
            n = Origin(k, **{a: v for a, v in o.__dict__.items() if a != 'kind'})
            n.base = nb
            return n
        return o
    if k == 'place':
        nb = refine(body, o.base, env, depth + 1)
        if nb is not o.base:
            return Origin('place', base=nb, proj=o.proj)
        return o
    if k == 'un':
        na = refine(body, o.a, env, depth + 1)
        if na is not o.a:
            n = Origin('un', **{a: v for a, v in o.__dict__.items() if a != 'kind'})
            n.a = na
            return n
        return o
    if k == 'agg':
        nops = [refine(body, a, env, depth + 1) for a in o.ops]
        if any(x is not y for x, y in zip(nops, o.ops)):
            n = Origin('agg', **{a: v for a, v in o.__dict__.items() if a != 'kind'})
            n.ops = nops
            return n
        return o
    if k == 'call':
        nargs = [refine(body, a, env, depth + 1) for a in o.args]
        callee = o.callee
        if callee == '<indirect>' and getattr(o, 'term', None) and isinstance(o.term.get('fn'), dict) and o.term['fn'].get('ptr'):
            # a call through a function pointer whose value is known on this path (`let f = match tag {0 => A::X, ..}; f(v)`)
            try:
                fo = refine(body, body.origin_of_operand(o.term['fn']['ptr']), env, depth + 1)
                while fo is not None and fo.kind in ('ref', 'cast'):
                    fo = fo.base
                if fo is not None and fo.kind == 'const' and getattr(fo, 'fn', None):
                    callee = fo.fn
            except Exception:
                pass
        if any(x is not y for x, y in zip(nargs, o.args)) or callee != o.callee:
            n = Origin('call', **{a: v for a, v in o.__dict__.items() if a != 'kind'})
            n.args = nargs
            n.callee = callee
            return n
        return o
    return o


def simplify(o, edges):
    """Look through boolean negation: switch on Not(x) == switch on x with flipped labels."""
    flip = {'true': 'false', 'false': 'true'}
    while o is not None and o.kind == 'un' and o.op == 'Not':
        edges = {tb: set(flip.get(l, l) for l in labs) for tb, labs in edges.items()}
        o = o.a
    return o, edges


def known_label(o):
    """Variant / bool value of an origin when it is determined on this path."""
    d = 0
    while o is not None and d < 20:
        d += 1
        if o.kind in ('ref', 'cast'):
            o = o.base
            continue
        if o.kind == 'agg' and o.rv.get('kind') == 'adt' and o.rv.get('variant'):
            return o.rv['variant']
        if o.kind == 'place':
            # payload of a known aggregate: Some(X)@Some.0 is X
            base = o.base
            while base is not None and base.kind in ('ref', 'cast'):
                base = base.base
            proj = [x for x in o.proj if x != '*']
            if base is not None and base.kind == 'call' and ''.join(proj) == '@Break.0':
                # the residual of `x?` (origins look through Try::branch to x): Option<Infallible> is None,
                # Result<Infallible, E> is Err
                try:
                    ty = base.site.body.rec['locals'][base.term['dest'][0]]['ty']
                except Exception:
                    ty = ''
                if re.search(r'Try>?::branch$', base.callee):
                    ty = base.term['fn'].get('self') or ''
                if re.match(r'^(?:std|core)::option::Option<', ty):
                    return 'None'
                if re.match(r'^(?:std|core)::result::Result<', ty):
                    return 'Err'
                return None
            if base is not None and base.kind == 'agg' and getattr(base, 'ops', None) is not None:
                vn = base.rv.get('variant')
                if vn and proj and proj[0] == '@' + vn:
                    proj = proj[1:]
                if len(proj) == 1 and re.match(r'^\.\d+$', proj[0]) and int(proj[0][1:]) < len(base.ops):
                    o = base.ops[int(proj[0][1:])]
                    continue
                if not proj:
                    o = base
                    continue
            return None
        if o.kind == 'const':
            if o.value in (0, 1) and getattr(o, 'ty', '') == 'bool':
                return 'true' if o.value else 'false'
            return None
        if o.kind == 'call' and re.search(r'FromResidual.*::from_residual$', o.callee):
            # the value a `?` returns early: always the failure variant of the function's own return type
            full = (o.term['fn'].get('full') or o.term['fn'].get('self') or '') if getattr(o, 'term', None) else ''
            m = re.match(r'^<(?:std|core)::(option::Option|result::Result)<', full)
            if m:
                return 'None' if m.group(1).endswith('Option') else 'Err'
            return None
        if o.kind == 'call' and o.args and any(o.callee.endswith(x) for x in NONE_PRESERVING):
            if known_label(o.args[0]) == 'None':
                return 'None'
            return None
        return None
    return None


def strip_suffix(v):
    """condition variable without its iteration (`#n`) / collision (`~n`) suffixes"""
    return re.sub(r'(?:[#~]\d+)+$', '', v)


class Path:
    __slots__ = ('blocks', 'conds', 'events', 'outcome', 'ret_site', 'kind', 'event_args', 'field_stores', 'env', 'body', '_tail')

    def __init__(self):
        self.blocks = []
        self.conds = []      # (var_path, frozenset(labels), switch_bb)
        self.events = []     # call Sites in order
        self.outcome = None
        self.ret_site = None
        self.kind = 'return'
        self.event_args = {}
        self.field_stores = {}
        self.env = None
        self.body = None

    def local_value(self, local):
        """Path-specific description of the value a local holds at the end of the path (None if never assigned on it)."""
        if self.env is None or ('def', local) not in self.env:
            return None
        site, st = self.env[('def', local)]
        o = self.body._origin_of_def(site, st, 0)
        return describe(refine(self.body, o, self.env))

    def cond_map(self):
        m = {}
        for v, labs, _bb in self.conds:
            m[v] = (m[v] & labs) if v in m else set(labs)
        if _PATH_FACTS[0] is not None:
            m = expand_helper_conds(_PATH_FACTS[0], m)
        return m

    def called(self, pat):
        from .facts import callee_matches
        return [s for s in self.events if callee_matches(s.term, pat)]


def timeline(p):
    """Conditions and call events of a path in execution order: [('ev', Site) | ('cond', var, labels)].
    (Events are recorded at their call block, conditions at their switch block; the block sequence of the path orders them.)"""
    cq, eq = {}, {}
    for v, labs, bb in p.conds:
        cq.setdefault(bb, []).append((v, labs))
    for s in p.events:
        eq.setdefault(s.bb, []).append(s)
    out = []
    for bb in p.blocks:
        if eq.get(bb):
            out.append(('ev', eq[bb].pop(0)))
        if cq.get(bb):
            v, labs = cq[bb].pop(0)
            out.append(('cond', v, labs))
    return out


_PATH_FACTS = [None]
_LOGLEVEL = re.compile(r'^cmp\((?:const\()?(?:log::)?Level::\w+(?:\(\))?\)?,(?:call:log::max_level(?:\(\))?|const\(log::STATIC_MAX_LEVEL\))\)$')
_PANIC = re.compile(r'^(core|std)::(panicking::|rt::begin_panic|rt::panic_fmt|option::expect_failed|result::unwrap_failed|option::unwrap_failed)')


def panics_only(body, bb, _memo=None):
    """Every path from block bb ends in a panic function (the failing side of assert!/debug_assert!/unreachable!)."""
    cache = body.__dict__.setdefault('_panics_only', {})
    if bb in cache:
        return cache[bb]
    cache[bb] = False       # cycles: not panic-only
    t = body.blocks[bb]['term']
    k = t['t']
    res = False
    if k == 'call':
        from .facts import callee_name
        if t.get('to') is None:
            res = bool(_PANIC.search(callee_name(t) or ''))
        else:
            res = panics_only(body, t['to'])
    elif k in ('goto', 'drop', 'assert'):
        res = panics_only(body, t['to'])
    elif k == 'switch':
        tg = [tb for _v, tb in t['targets']] + [t['otherwise']]
        res = all(panics_only(body, x) for x in tg if x is not None)
    elif k == 'unreachable':
        res = True
    cache[bb] = res
    return res


def enumerate_paths(body, facts=None, start=0, max_paths=50000, stop_calls=None, max_visits=1):
    """All acyclic paths start -> return (or -> a call in stop_calls)."""
    if facts is not None or getattr(body, 'facts', None) is not None:
        _PATH_FACTS[0] = facts if facts is not None else body.facts
    from .facts import callee_matches
    out = []
    nblocks = len(body.blocks)

    def rec(bb, env, conds, events, blocks, last0):
        if len(out) > max_paths:
            raise RuntimeError('too many paths')
        if blocks.count(bb) >= max_visits:
            p = Path()
            p.blocks = blocks + [bb]
            p.conds = conds
            p.events = events
            p.event_args = env.get('__args__', {})
            p.field_stores = env.get('__fa__', {})
            p.env = env
            p.body = body
            p.kind = 'loop'
            p.outcome = 'LOOP'
            out.append(p)
            return
        blocks = blocks + [bb]
        blk = body.blocks[bb]
        env = dict(env)
        for j, s in enumerate(blk['stmts']):
            if s['s'] != 'assign':
                continue
            lhs = s['lhs']
            if len(lhs) != 1:
                # field store: remember the path-specific description of the stored value
                if lhs[-1].startswith('.') and s['rv']['r'] in ('use', 'agg'):
                    fa = dict(env.get('__fa__', {}))
                    try:
                        if s['rv']['r'] == 'use':
                            fa[(bb, j)] = (lhs[-1][1:], describe(refine(body, body.origin_of_operand(s['rv']['o']), env)))
                        else:
                            fa[(bb, j)] = (lhs[-1][1:], describe(refine(body, body._origin_of_def(Site(body, bb, j), s, 0), env)))
                    except Exception:
                        pass
                    env['__fa__'] = fa
                continue
            rv = s['rv']
            if lhs[0] == 0:
                last0 = Site(body, bb, j)
            env[('def', lhs[0])] = (Site(body, bb, j), s)
            if rv['r'] == 'use' and 'k' in rv['o'] and 'int' in rv['o']['k']:
                env[lhs[0]] = rv['o']['k']['int']
            elif rv['r'] == 'use' and (rv['o'].get('c') or rv['o'].get('m')) and \
                    len(rv['o'].get('c') or rv['o'].get('m')) == 1 and (rv['o'].get('c') or rv['o'].get('m'))[0] in env:
                env[lhs[0]] = env[(rv['o'].get('c') or rv['o'].get('m'))[0]]
            elif rv['r'] == 'un' and rv['op'] == 'Not' and (rv['a'].get('c') or rv['a'].get('m')) and \
                    len(rv['a'].get('c') or rv['a'].get('m')) == 1 and (rv['a'].get('c') or rv['a'].get('m'))[0] in env:
                env[lhs[0]] = 0 if env[(rv['a'].get('c') or rv['a'].get('m'))[0]] else 1
            else:
                env.pop(lhs[0], None)
        t = blk['term']
        k = t['t']
        if k == 'return':
            p = Path()
            p.blocks = blocks
            p.conds = conds
            p.events = events
            p.event_args = env.get('__args__', {})
            p.field_stores = env.get('__fa__', {})
            p.env = env
            p.body = body
            p.ret_site = last0
            if last0 is not None:
                if last0.is_term:
                    o = body._origin_of_def(last0, last0.term, 0)
                else:
                    o = body._origin_of_def(last0, last0.stmt, 0)
                p.outcome = describe(refine(body, o, env))
            else:
                p.outcome = 'unit'
            out.append(p)
            return
        if k == 'goto':
            rec(t['to'], env, conds, events, blocks, last0)
            return
        if k in ('drop', 'assert'):
            rec(t['to'], env, conds, events, blocks, last0)
            return
        if k == 'call':
            if len(t['dest']) == 1:
                env.pop(t['dest'][0], None)
                env[('def', t['dest'][0])] = (Site(body, bb), t)
                if t['dest'][0] == 0:
                    last0 = Site(body, bb)
            events = events + [Site(body, bb)]
            ea = dict(env.get('__args__', {}))
            try:
                ea[bb] = [describe(refine(body, body.origin_of_operand(a), env)) for a in t['args']]
            except Exception:
                ea[bb] = None
            env['__args__'] = ea
            if stop_calls and callee_matches(t, stop_calls):
                p = Path()
                p.blocks = blocks
                p.conds = conds
                p.events = events
                p.event_args = env.get('__args__', {})
                p.field_stores = env.get('__fa__', {})
                p.env = env
                p.body = body
                p.kind = 'stop'
                p.outcome = 'call:' + short(callee_name(t))
                out.append(p)
                return
            if t.get('to') is None:
                if _PANIC.search(callee_name(t) or ''):
                    # a failed assertion / explicit panic: the path produces no outcome to judge (debug_assert!, unreachable!)
                    return
                p = Path()
                p.blocks = blocks
                p.conds = conds
                p.events = events
                p.event_args = env.get('__args__', {})
                p.field_stores = env.get('__fa__', {})
                p.env = env
                p.body = body
                p.kind = 'diverge'
                p.outcome = 'diverge:' + short(callee_name(t))
                out.append(p)
                return
            rec(t['to'], env, conds, events, blocks, last0)
            return
        if k == 'yield':
            rec(t['to'], env, conds, events, blocks, last0)
            return
        if k == 'switch':
            place = t['d'].get('c') or t['d'].get('m')
            if place is not None and len(place) == 1 and place[0] in env:
                v = env[place[0]]
                tgt = None
                for val, tb in t['targets']:
                    if val == v:
                        tgt = tb
                if tgt is None:
                    tgt = t['otherwise']
                rec(tgt, env, conds, events, blocks, last0)
                return
            if 'k' in t['d'] and 'int' in t['d']['k']:
                v = t['d']['k']['int']
                tgt = None
                for val, tb in t['targets']:
                    if val == v:
                        tgt = tb
                rec(tgt if tgt is not None else t['otherwise'], env, conds, events, blocks, last0)
                return
            o, edges = body.switch_edges(bb)
            o = refine(body, o, env)
            o, edges = simplify(o, edges)
            kl = known_label(o)
            if kl is not None:
                tgts = [tb for tb, labs in edges.items() if kl in labs]
                if len(tgts) == 1:
                    rec(tgts[0], env, conds, events, blocks, last0)
                    return
            var = o
            if facts is not None:
                ce = comparison_edges(body, facts, o, edges)
                if ce is not None:
                    var, edges = ce
            vp = describe(var)
            oe = order_edges(var, edges) if var is o else None
            if oe is not None:
                vp, edges = oe
            nvis = blocks.count(bb)
            if nvis > 1:
                vp = '%s#%d' % (vp, nvis)   # value of a later loop iteration: a different variable
            # Two different calls can have the same description (e.g. two `Parse::parse(reader)` on a stateful reader).
            # Comparisons abstracted to an order relation, and repeated pure accessors, keep description identity; a plain
            # call result whose labels CONFLICT with an earlier one from a different call site is a different variable.
            ident = None
            if oe is None:
                oc = var
                while oc is not None and oc.kind in ('ref', 'cast', 'place'):
                    oc = oc.base
                if oc is not None and oc.kind == 'call':
                    ident = oc.site.bb
            cm = {}
            for v_, labs_, _b in conds:
                cm[v_] = (cm[v_] & labs_) if v_ in cm else set(labs_)
            idents = env.get('__ident__', {})
            if ident is not None:
                all_labs = set()
                for labs in edges.values():
                    all_labs |= labs
                k = 1
                base_vp = vp
                while vp in idents and idents[vp] != ident and vp in cm and not (cm[vp] & all_labs):
                    k += 1
                    vp = '%s~%d' % (base_vp, k)
                if vp not in idents:
                    idents = dict(idents)
                    idents[vp] = ident
                    env['__ident__'] = idents
            live = [tb for tb in edges if not panics_only(body, tb)]
            for tb, labs in sorted(edges.items()):
                if vp in cm and not (cm[vp] & labs):
                    continue  # infeasible: contradicts an earlier test of the same value
                if tb not in live:
                    continue  # the failing side of an assertion: no outcome to judge
                if len(live) == 1 and len(edges) > 1:
                    # the test of an `assert!`/`debug_assert!`: the only continuing side is not a decision of the function
                    rec(tb, env, conds, events, blocks, last0)
                    continue
                if _LOGLEVEL.match(strip_suffix(vp)):
                    # the level test inside `debug!`/`info!`/..: both sides are followed, the test is not a condition of
                    # the path table (what happens under it is still seen as events of the path)
                    rec(tb, env, conds, events, blocks, last0)
                else:
                    rec(tb, env, conds + [(vp, frozenset(labs), bb)], events, blocks, last0)
            return
        if k == 'unreachable':
            return
        # resume/abort/etc: ignore
        return

    rec(start, {}, [], [], [], None)
    return out


def table(paths):
    """Collapse paths to {frozenset(cond items)} -> set(outcomes)."""
    rel = {}
    for p in paths:
        key = tuple(sorted((v, tuple(sorted(l))) for v, l in p.cond_map().items()))
        rel.setdefault(key, set()).add(p.outcome)
    return rel


def lookup(paths, assignment):
    """Paths consistent with a full assignment {var: value}; vars not tested on
    a path are don't-care."""
    res = []
    for p in paths:
        ok = True
        for v, labs in p.cond_map().items():
            if v in assignment and assignment[v] not in labs:
                ok = False
                break
        if ok:
            res.append(p)
    return res


_HELPER_SUMMARY = {}


def _helper_index(facts):
    idx = getattr(facts, '_short_index', None)
    if idx is None:
        idx = {}
        for nid in facts.by_nid:
            if '{closure' in nid or '{impl' in nid:
                continue
            parts = nid.split('::')
            idx.setdefault('::'.join(parts[-2:]), []).append(nid)
        facts._short_index = idx
    return idx


def helper_summary(facts, short):
    """(inner description, negated) for a straight-line crate-local bool helper named `Type::name`, else None."""
    import re as _re
    key = (id(facts), short)
    if key in _HELPER_SUMMARY:
        return _HELPER_SUMMARY[key]
    res = None
    nids = _helper_index(facts).get(short, [])
    if len(nids) == 1 and nids[0].split('::')[0] not in ('std', 'core', 'alloc'):
        hbs = facts.find(nids[0])
        if len(hbs) == 1:
            hb = hbs[0]
            rty = hb.rec['locals'][0]['ty']
            if rty == 'bool' and len(hb.switches()) == 0 and len(hb.blocks) <= 12:
                rd = describe(hb.origin_of_place([0]))
                neg = False
                mm = _re.match(r'^Not\((.*)\)$', rd)
                if mm:
                    rd, neg = mm.group(1), True
                if rd.startswith('call:') or ('.' in rd and not rd.startswith('const(')):
                    res = (rd, neg)
    _HELPER_SUMMARY[key] = res
    return res


def expand_helper_conds(facts, cm):
    """Path conditions on the result of a small crate-local bool helper, re-expressed in terms of what the helper
    returns: {`call:Store::is_torn(err)`: {'true'}} + `fn is_torn(e) -> bool { !e.is_fatal() }` adds
    {`call:ParseError::is_fatal(e)`: {'false'}}. Only straight-line helpers (no branches) are summarised; the original
    entries are kept."""
    import re as _re
    if facts is None:
        return cm
    out = dict(cm)
    flip = {'true': 'false', 'false': 'true'}
    for v, labs in list(cm.items()):
        if not labs or not set(labs) <= {'true', 'false'}:
            continue
        m = _re.match(r'^(Not\()?call:([A-Za-z_][\w]*::[A-Za-z_]\w*)\(', v)
        if not m:
            continue
        sm = helper_summary(facts, m.group(2))
        if sm is None:
            continue
        rd, neg = sm
        if m.group(1):
            neg = not neg
        new = {flip[x] for x in labs} if neg else set(labs)
        out[rd] = (set(out[rd]) & new) if rd in out else new
    return out
